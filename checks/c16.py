"""C16 — density estimation solves the right linear system.

Oracles (all written from the definition, none of them calls the library):
  * 1D mass matrix of the piecewise-linear hat basis on a point set 0 = x_0 < ... < x_n = 1 (element-wise assembly,
    h/3 on the diagonal of each element, h/6 off the diagonal), Kronecker product over the dimensions, + lambda*I;
  * reference hat  phi(c, lo, hi; x)  (1 at c, linear to 0 at lo and hi, 0 outside; half hats at a boundary point);
  * right-hand side  b_i = 1/M sum_j s_j prod_d phi_i,d(x_j,d);
  * trapezoidal weights of the point set (uniform grid: all equal) for the normalisation clause;
  * reference surpluses: solve (G + lambda I) x = b, (labels: subtract the weighted mean), divide by the weighted
    mean of max(x, 0) when that is non-zero.
"""
import contextlib
import io
import itertools

import numpy as np
from hypothesis import strategies as st

from vlib.core import Outcome, Sub

PROPERTY = "C16"
Q = 100  # print_level / log_level that silences the library

RULE = (
    "uniform: d in 1..3, anisotropic level vector (levels 1..4, 1D up to 8; 1 in 10 cases aims at N>=200, the switch of "
    "the right-hand-side code path; N<=320 quick / 520 thorough), 1..12 (thorough 30) explicit samples (+0/10/40 seeded "
    "bulk samples, 15% of their coordinates snapped to grid lines) in [0,1]^d whose coordinates are drawn from {grid "
    "line of that dimension, 0, 1, cell midpoint, arbitrary float}, 1 in 10 samples a copy of an earlier one, lambda in "
    "{0,1e-3,0.1}, mass lumping on/off, labels +-1 or none; the library is driven through setCurrentArea + "
    "build_R_matrix/calculate_B/solve_density_estimation or (1 in 4) through StandardCombi.perform_operation, all "
    "component grids of the scheme checked. dimwise: per-dimension dyadic refinement trees (uniform level 1..3, then "
    "bisect drawn intervals, smallest interval 2^-8) give non-uniform stripes; boundary points on in 1 of 6 small "
    "grids and in 1 of 3 of the grids aiming at >= 200 basis functions (class boundary=True&grid>=200), "
    "analytic or numeric entries (numeric: 1 in 12 quick / 1 in 6 thorough, <= 9 points, d <= 2), R cache on/off, one or "
    "two grids per operation object (state carry-over); driven through build_R_matrix_dimension_wise / "
    "calculate_B_dimension_wise / calculate_operation_dimension_wise. sasd: a real SpatiallyAdaptiveSingleDimensions2 "
    "run (d 1..2, thorough 3; lmin 1..2, lmax lmin+1..2, margin, rebalancing on/off, scripted error values, 5..60 (120) "
    "max_evaluations); every calculate_operation_dimension_wise call is observed and its surpluses compared with the "
    "oracle for the stripes it was given; one third of the cases use reuse_old_values=True with level ranges that "
    "give component grids of >= 200 points (2D lmin 3 lmax 5, 1D lmin 7 lmax 8, thorough also 2D lmin 4 lmax 5), "
    "100..400 samples and 2..4 complete evaluations; two of four of these use reuse_old_values=True, so that from the "
    "second evaluation on the right-hand side is partly copied from the old vector and partly recomputed through "
    "find_data_in_domain, one of four uses boundary=True (9x33, 17x17 ... basis functions incl. half hats, samples on "
    "the domain boundary), one of four both (classes reuse=True, grid>=200, boundary=True&grid>=200, "
    "evaluation>=1-with-reuse-and-grid>=200, b-entries-recomputed-via-find_data_in_domain). hats: hat_function, hat_function_in_support(_vectorized/"
    "_completely_vectorized), hat_function_non_symmetric(_vectorized/_completely_vectorized) against the reference hat "
    "and pairwise, all hats of a level vector or of tree stripes, at points on grid lines, on support ends, on the domain "
    "boundary and inside cells. Non-trivial: uniform = d>=2, anisotropic level vector, >=1 sample coordinate exactly on "
    "an interior grid line; dimwise = a non-uniform stripe and >=1 sample coordinate on an interior grid line; sasd = at "
    "least one solved component grid that is non-uniform and has a sample on one of its grid lines; hats = "
    "(anisotropic or non-uniform) and >=1 point coordinate on an interior grid line. Distinct = distinct case dict."
)
ASSUMPTIONS = [
    "data lie in [0,1]^d (so initialize() does not rescale); labels are a numpy array of +1/-1 (what the test-suite and "
    "DEMachineLearning pass)",
    "uniform component grids have no boundary points (evaluate_levelvec asserts this); dimension-wise grids are "
    "GlobalTrapezoidalGrid with modified_basis=False (the modified basis path raises 'not yet implemented')",
    "non-uniform stripes are dyadic refinement-tree point sets containing both domain ends and >=1 interior point "
    "per dimension (what get_point_coord_for_each_dim produces)",
    "hat_function_in_support, hat_function_in_support_vectorized and hat_function_non_symmetric_vectorized are only "
    "called with points inside the closed support of every hat passed (documented precondition: 'guaranteed in support'); "
    "hat_function_non_symmetric_vectorized is not called with boundary hats (its only caller, the N>=200 interpolation "
    "path, is used for boundary=False only)",
    "mass lumping on uniform grids: build_R_matrix returns the (constant) Gram diagonal as a scalar; lambda is accepted "
    "as absent or present there because a constant diagonal shift cancels in the normalisation; on non-uniform grids "
    "the lumped form is Gram diagonal + lambda",
    "the proportionality clause is skipped (and counted as class 'degenerate') when the reference solution is zero or "
    "constant up to rounding (then the library normalises rounding noise)",
    "in the dimwise sub reuse_old_values is only used for the R cache (post_processing is never called there, so no old "
    "b-vector exists); the b-vector reuse path is exercised by the sasd sub (real runs, every right-hand side compared "
    "with the definition; the twin comparison reuse on/off is property C17); the R cache is not combined with numeric entries (a cached inexact value of a "
    "congruent pair would blur the cause predicate of F-C16-numeric)",
    "dimension-wise analytic matrix entries are compared with max(1e-12*max|G|, 1e-14/h_min^2) absolute because the "
    "library's antiderivatives lose digits like 0.4e-16/h_min^2 (reported as an observation, not as a violation); uniform "
    "ones with 1e-12*max|G|; on non-uniform grids the surplus clause uses the observed R and b once they passed their own "
    "clause; surplus tolerance 1e-8*max|alpha|",
]

LAMBDAS = [0.0, 1e-3, 0.1]


# ----------------------------------------------------------------------------------------------------------------
# reference model
# ----------------------------------------------------------------------------------------------------------------
def ref_hat1d(c, lo, hi, x):
    """hat with peak 1 at c, support [lo, hi]; lo == c or hi == c gives a half hat (boundary basis function)."""
    if x == c:
        return 1.0
    if x < c:
        if x <= lo or lo == c:
            return 0.0
        return (x - lo) / (c - lo)
    if x >= hi or hi == c:
        return 0.0
    return (hi - x) / (hi - c)


def ref_mass1d(stripe, boundary):
    """element-wise assembly of int phi_i phi_j on the full stripe (both domain ends included)."""
    n = len(stripe)
    M = np.zeros((n, n))
    for e in range(n - 1):
        h = stripe[e + 1] - stripe[e]
        M[e, e] += h / 3.0
        M[e + 1, e + 1] += h / 3.0
        M[e, e + 1] += h / 6.0
        M[e + 1, e] += h / 6.0
    return M if boundary else M[1:-1, 1:-1]


def ref_gram(stripes, boundary):
    G = np.ones((1, 1))
    for s in stripes:
        G = np.kron(G, ref_mass1d(s, boundary))
    return G


def ref_weights(stripes, boundary):
    """tensor trapezoidal weights (integral of each hat)."""
    W = np.ones(1)
    for s in stripes:
        n = len(s)
        w = np.zeros(n)
        for e in range(n - 1):
            h = s[e + 1] - s[e]
            w[e] += h / 2.0
            w[e + 1] += h / 2.0
        if not boundary:
            w = w[1:-1]
        W = np.kron(W, w)
    return W


def ref_hatmatrix1d(stripe, boundary, xs):
    """A[j, i] = phi_i(xs[j]) for the basis functions of one dimension."""
    n = len(stripe)
    idx = range(n) if boundary else range(1, n - 1)
    A = np.zeros((len(xs), len(idx)))
    for col, i in enumerate(idx):
        lo = stripe[i - 1] if i > 0 else stripe[i]
        hi = stripe[i + 1] if i < n - 1 else stripe[i]
        for j, x in enumerate(xs):
            A[j, col] = ref_hat1d(stripe[i], lo, hi, x)
    return A


def ref_hatmatrix(stripes, boundary, data):
    """A[j, i] = prod_d phi_{i_d}(x_{j,d}); column order = cross product with the first dimension slowest."""
    data = np.asarray(data, dtype=float)
    A = np.ones((len(data), 1))
    for d, s in enumerate(stripes):
        Ad = ref_hatmatrix1d(s, boundary, data[:, d])
        A = (A[:, :, None] * Ad[:, None, :]).reshape(len(data), -1)
    return A


def ref_b(stripes, boundary, data, classes):
    A = ref_hatmatrix(stripes, boundary, data)
    if classes is not None:
        A = A * np.asarray(classes, dtype=float)[:, None]
    return A.sum(axis=0) / len(data)


def ref_surpluses(G, lam, b, w, has_classes, lumped):
    """returns (expected surpluses, degenerate flag)"""
    if lumped:
        x = b / (np.diag(G) + lam)
    else:
        x = np.linalg.solve(G + lam * np.eye(len(G)), b)
    scale = float(np.max(np.abs(x))) if len(x) else 0.0
    if scale <= 1e-13:
        return np.zeros(len(x)), True
    if has_classes:
        x = x - np.inner(x, w) / np.sum(w)
        if np.max(np.abs(x)) <= 1e-9 * scale:
            return x, True
    p = np.inner(np.clip(x, 0.0, None), w) / np.sum(w)
    if p <= 1e-9 * scale:
        return x, True
    return x / p, False


def uniform_stripes(levels):
    return [[i / float(2 ** l) for i in range(2 ** l + 1)] for l in levels]


def tree_stripe(splits, lmin=1):
    """dyadic refinement tree: start from the uniform level-lmin stripe, then bisect interval (k mod #intervals) for
    every k in splits.  Returns (points, levels)."""
    pts = [i / float(2 ** lmin) for i in range(2 ** lmin + 1)]
    lev = [0] * len(pts)
    for l in range(1, lmin + 1):
        step = 2 ** (lmin - l)
        for i in range(step, 2 ** lmin, 2 * step):
            lev[i] = l
    for k in splits:
        i = k % (len(pts) - 1)
        if pts[i + 1] - pts[i] < 2.0 ** -7:
            continue
        mid = 0.5 * (pts[i] + pts[i + 1])
        pts.insert(i + 1, mid)
        lev.insert(i + 1, max(lev[i], lev[i + 1]) + 1)
    return pts, lev


# ----------------------------------------------------------------------------------------------------------------
# clause checkers shared by the sub-checks
# ----------------------------------------------------------------------------------------------------------------
def _maxabs(a):
    a = np.asarray(a, dtype=float)
    return float(np.max(np.abs(a))) if a.size else 0.0


def check_matrix(out, sub, R, G, lam, tag, info=None, tol=1e-12, clause="gram"):
    """R (dense) must equal G + lam I; symmetric; positive definite.  tol 1e-12 * max|G| (rounding seen: 3e-16);
    numeric entries: 1e-9 * max|G|."""
    R = np.asarray(R, dtype=float)
    want = G + lam * np.eye(len(G))
    if R.shape != want.shape:
        out.bad(sub + "/" + clause + "/shape", "%s shape %s expected %s" % (tag, R.shape, want.shape))
        return False
    scale = _maxabs(G)
    dev = _maxabs(R - want)
    if info is not None:
        info["max_gram_dev_rel"] = max(info.get("max_gram_dev_rel", 0.0), dev / scale)
    ok = True
    if not np.array_equal(R, R.T):
        a = _maxabs(R - R.T)
        if a > 1e-13 * scale:
            out.bad(sub + "/" + clause + "/not-symmetric", "%s max|R-R^T|=%g" % (tag, a))
            ok = False
    if dev > tol * scale:
        D = np.abs(R - want)
        i, j = np.unravel_index(np.argmax(D), D.shape)
        offd = np.abs(R - want - np.diag(np.diag(R - want)))
        if _maxabs(np.diag(R - want)) > tol * scale and _maxabs(offd) <= tol * scale:
            cause = "diagonal"
        elif _maxabs(np.diag(R - want)) <= tol * scale:
            cause = "off-diagonal"
        else:
            cause = "diagonal-and-off-diagonal"
        out.bad(sub + "/" + clause + "/" + cause, "%s max|R-(G+lam I)|=%g at (%d,%d): got %r want %r (lam=%g)"
                % (tag, dev, i, j, R[i, j], want[i, j], lam))
        ok = False
    try:
        ev = np.linalg.eigvalsh(0.5 * (R + R.T))
        if ev[0] <= 0.0:
            out.bad(sub + "/" + clause + "/not-positive-definite", "%s smallest eigenvalue %g" % (tag, ev[0]))
            ok = False
    except np.linalg.LinAlgError as e:  # pragma: no cover
        out.bad(sub + "/" + clause + "/not-positive-definite", "%s eigvalsh failed: %s" % (tag, e))
        ok = False
    return ok


def check_b(out, sub, b, bref, tag, info=None):
    """tol 1e-12 absolute (entries are means of products of numbers in [0,1]; rounding seen ~1e-16)."""
    b = np.asarray(b, dtype=float)
    if b.shape != bref.shape:
        out.bad(sub + "/rhs/shape", "%s shape %s expected %s" % (tag, b.shape, bref.shape))
        return False
    dev = _maxabs(b - bref)
    if info is not None:
        info["max_rhs_dev"] = max(info.get("max_rhs_dev", 0.0), dev)
    if dev > 1e-12:
        i = int(np.argmax(np.abs(b - bref)))
        out.bad(sub + "/rhs/value", "%s max|b-b_ref|=%g at %d: got %r want %r" % (tag, dev, i, b[i], bref[i]))
        return False
    return True


def check_surpluses(out, sub, alphas, G, lam, bref, w, has_classes, lumped, tag, info=None, tol=1e-8):
    """normalisation clause (1e-9) and proportionality clause (tol * max|alpha|)."""
    alphas = np.asarray(alphas, dtype=float)
    if alphas.shape != bref.shape:
        out.bad(sub + "/surplus/shape", "%s shape %s expected %s" % (tag, alphas.shape, bref.shape))
        return
    if not np.all(np.isfinite(alphas)):
        out.bad(sub + "/surplus/not-finite", "%s %s" % (tag, alphas[:6]))
        return
    q = np.inner(np.clip(alphas, 0.0, None), w) / np.sum(w)
    if q != 0.0 and abs(q - 1.0) > 1e-9:
        out.bad(sub + "/surplus/not-normalised", "%s weighted mean of positive parts = %r" % (tag, q))
    want, degenerate = ref_surpluses(G, lam, bref, w, has_classes, lumped)
    if degenerate:
        out.cls("degenerate")
        if _maxabs(bref) == 0.0 and _maxabs(alphas) != 0.0:
            out.bad(sub + "/surplus/nonzero-for-zero-rhs", "%s b=0 but max|alpha|=%g" % (tag, _maxabs(alphas)))
        return
    if q == 0.0:
        out.bad(sub + "/surplus/not-normalised", "%s reference has positive part %g but returned surpluses have none"
                % (tag, 1.0))
        return
    dev = _maxabs(alphas - want)
    scale = _maxabs(want)
    if info is not None:
        info["max_surplus_dev_rel"] = max(info.get("max_surplus_dev_rel", 0.0), dev / scale)
    if dev > tol * scale:
        # is it at least a multiple of the reference?  (coarse cause for the signature)
        c = np.inner(alphas, want) / np.inner(want, want)
        if _maxabs(alphas - c * want) <= tol * scale:
            cause = "wrong-scale"
        else:
            cause = "not-proportional"
        i = int(np.argmax(np.abs(alphas - want)))
        out.bad(sub + "/surplus/" + cause, "%s max|alpha-alpha_ref|=%g (scale %g) at %d: got %r want %r"
                % (tag, dev, scale, i, alphas[i], want[i]))


def on_grid_line(stripes, data):
    """number of sample coordinates exactly on an interior grid line"""
    n = 0
    for d, s in enumerate(stripes):
        inner = set(s[1:-1])
        n += sum(1 for x in data if x[d] in inner)
    return n


def silent():
    return contextlib.redirect_stdout(io.StringIO())


def make_data(case):
    """explicit samples + optional seeded bulk (uniform, some snapped onto grid lines / boundary)"""
    data = [list(map(float, p)) for p in case["data"]]
    d = case["d"]
    nb = int(case.get("bulk", 0))
    if nb:
        rng = np.random.default_rng(case["rng"])
        X = rng.random((nb, d))
        snap = rng.random((nb, d))
        res = case.get("snap_res", [4] * d)
        for j in range(nb):
            for k in range(d):
                if snap[j, k] < 0.15:
                    v = round(X[j, k] * 2 ** res[k]) / 2.0 ** res[k]
                    if not (case.get("bulk_inner") and v in (0.0, 1.0)):
                        X[j, k] = v
        data += X.tolist()
    classes = None
    if case.get("labels") is not None:
        lab = list(case["labels"])
        rng = np.random.default_rng(case["rng"] + 1)
        lab += [int(v) for v in rng.choice([-1, 1], size=len(data) - len(lab))] if len(data) > len(lab) else []
        classes = np.array(lab[:len(data)], dtype=float)
    return np.array(data, dtype=float), classes


# ----------------------------------------------------------------------------------------------------------------
# sub-check: uniform component grids
# ----------------------------------------------------------------------------------------------------------------
def run_uniform(case):
    from sparseSpACE.GridOperation import DensityEstimation
    from sparseSpACE.StandardCombi import StandardCombi
    out = Outcome()
    sub = "uniform"
    d, lam, lump = case["d"], case["lam"], case["lump"]
    data, classes = make_data(case)
    info = {}
    a, b = np.zeros(d), np.ones(d)
    op = DensityEstimation(data.copy(), d, masslumping=lump, lambd=lam,
                           classes=None if classes is None else classes.copy(), print_level=Q, log_level=Q)
    grids = []
    if case["mode"] == "combi":
        combi = StandardCombi(a, b, operation=op, print_level=Q, log_level=Q)
        with silent():
            combi.perform_operation(case["lmin"], case["lmax"])
        if not np.array_equal(np.asarray(op.data), data):
            out.bad(sub + "/data-rescaled", "initialize() changed data lying in [0,1]^d")
        for cg in combi.scheme:
            lv = tuple(int(x) for x in cg.levelvector)
            if lv not in op.surpluses:
                out.bad(sub + "/surplus/missing-grid", "no surpluses stored for %s" % (lv,))
                continue
            grids.append((lv, None, None, op.surpluses[lv]))
    else:
        lv = tuple(case["levels"])
        with silent():
            op.initialize()
            if not np.array_equal(np.asarray(op.data), data):
                out.bad(sub + "/data-rescaled", "initialize() changed data lying in [0,1]^d")
            op.grid.setCurrentArea(a, b, lv)
            R = op.build_R_matrix(lv)
            bb = op.calculate_B(op.data, lv)
            al = op.solve_density_estimation(lv)
        grids.append((lv, R, bb, al))
    nline = 0
    for lv, R, bb, al in grids:
        stripes = uniform_stripes(lv)
        G = ref_gram(stripes, False)
        tag = "levels=%s lam=%g lump=%s" % (lv, lam, lump)
        N = len(G)
        info["max_N"] = max(info.get("max_N", 0), N)
        if R is not None:
            if lump:
                g = np.diag(G)
                r = float(R) if np.ndim(R) == 0 else None
                if r is None:
                    out.bad(sub + "/lumped/shape", "%s mass-lumped R is not a scalar: %r" % (tag, np.shape(R)))
                elif not (abs(r - g[0]) <= 1e-13 * g[0] or abs(r - g[0] - lam) <= 1e-13 * (g[0] + lam)):
                    out.bad(sub + "/lumped/value", "%s lumped R=%r, Gram diagonal=%r" % (tag, r, g[0]))
                if _maxabs(g - g[0]) > 1e-15:
                    raise AssertionError("oracle: uniform Gram diagonal not constant")
            else:
                check_matrix(out, sub, R, G, lam, tag, info=info)
            check_b(out, sub, bb, ref_b(stripes, False, data, classes), tag, info=info)
        bref = ref_b(stripes, False, data, classes)
        w = ref_weights(stripes, False)
        check_surpluses(out, sub, al, G, lam, bref, w, classes is not None, lump, tag, info=info)
        nline += on_grid_line(stripes, data)
        out.cls("N>=200" if N >= 200 else "N<200")
    lvs = [g[0] for g in grids]
    aniso = any(len(set(lv)) > 1 for lv in lvs)
    out.nontrivial = d >= 2 and aniso and nline >= 1
    out.cls("d=%d" % d, "mode=" + case["mode"], "lump" if lump else "full", "lam=%g" % lam,
            "labels" if classes is not None else "no-labels")
    if nline:
        out.cls("sample-on-grid-line")
    if any(0.0 in p or 1.0 in p for p in data.tolist()):
        out.cls("sample-on-domain-boundary")
    if len(set(map(tuple, data.tolist()))) < len(data):
        out.cls("duplicate-samples")
    info["max_samples"] = len(data)
    out.info = info
    return out


def coord_strategy(level_or_stripe):
    """one coordinate in [0,1]: grid line / boundary / midpoint / arbitrary"""
    if isinstance(level_or_stripe, int):
        n = 2 ** level_or_stripe
        stripe = [i / float(n) for i in range(n + 1)]
    else:
        stripe = list(level_or_stripe)
    mids = [0.5 * (stripe[i] + stripe[i + 1]) for i in range(len(stripe) - 1)]
    return st.one_of(
        st.sampled_from(stripe),
        st.sampled_from(stripe[1:-1] if len(stripe) > 2 else stripe),
        st.sampled_from([0.0, 1.0]),
        st.sampled_from(mids),
        st.floats(0.0, 1.0, allow_nan=False, width=64),
        st.floats(0.0, 1.0, allow_nan=False, width=64),
    )


@st.composite
def data_strategy(draw, per_dim, max_m):
    m = draw(st.integers(1, max_m))
    pts = []
    for j in range(m):
        if pts and draw(st.integers(0, 9)) == 0:
            pts.append(list(pts[draw(st.integers(0, len(pts) - 1))]))
        else:
            pts.append([draw(coord_strategy(s)) for s in per_dim])
    return pts


def uniform_strategy(tier):
    maxN = 320 if tier == "quick" else 520     # build_R_matrix costs ~2.5e-5 s * N^2 (debug-string formatting per pair)

    @st.composite
    def s(draw):
        d = draw(st.integers(1, 3))
        mode = draw(st.sampled_from(["direct", "direct", "direct", "combi"]))
        case = dict(d=d, mode=mode, lam=draw(st.sampled_from(LAMBDAS)), lump=draw(st.sampled_from([False, False, True])),
                    rng=draw(st.integers(0, 2 ** 31 - 1)))
        if mode == "combi":
            lmin = draw(st.integers(1, 2))
            lmax = lmin + draw(st.integers(0, 3 if d == 1 else (2 if d == 2 else 1)))
            case.update(lmin=lmin, lmax=lmax)
            per_dim = [lmax] * d
        else:
            big = draw(st.sampled_from([False] * (9 if tier == "quick" else 5) + [True]))      # aim at the N >= 200 path
            while True:
                if d == 1:
                    lv = [draw(st.integers(1, 8 if big else 6))]
                else:
                    lv = [draw(st.integers(1, 5 if big else 4)) for _ in range(d)]
                N = int(np.prod([2 ** l - 1 for l in lv]))
                if N <= maxN:
                    break
                lv[int(np.argmax(lv))] -= 1
                N = int(np.prod([2 ** l - 1 for l in lv]))
                if N <= maxN:
                    break
            case.update(levels=lv)
            per_dim = lv
        case["data"] = draw(data_strategy(per_dim, 12 if tier == "quick" else 30))
        case["bulk"] = draw(st.sampled_from([0, 0, 0, 10, 40]))
        case["snap_res"] = list(per_dim)
        if draw(st.booleans()):
            case["labels"] = [draw(st.sampled_from([-1, 1])) for _ in case["data"]]
        else:
            case["labels"] = None
        return case
    return s()



# ----------------------------------------------------------------------------------------------------------------
# low-tolerance quadrature of the *reference* integrand -- only used to explain a deviation of the numeric matrix
# entries (known finding F-C16-numeric: epsrel is 1 ** (-15) == 1), never to accept a wrong integrand or range
# ----------------------------------------------------------------------------------------------------------------
def _hat_domains(stripe, boundary):
    """[(centre, lo, hi)] of the basis functions of one dimension"""
    n = len(stripe)
    idx = range(n) if boundary else range(1, n - 1)
    return [(stripe[i], stripe[i - 1] if i > 0 else stripe[i], stripe[i + 1] if i < n - 1 else stripe[i]) for i in idx]


def loose_quad_gram(stripes, boundary, diagonal_only=False):
    """scipy.integrate.nquad of the product of two reference hats over the union of their supports with
    epsabs=1e-15, epsrel=1 (the tolerance the library requests), for every adjacent pair."""
    from scipy.integrate import nquad
    hd = [_hat_domains(s, boundary) for s in stripes]
    hats = list(itertools.product(*hd))
    n = len(hats)
    M = np.zeros((n, n))
    for i in range(n):
        for j in range(i, n):
            if diagonal_only and i != j:
                continue
            hi_, hj = hats[i], hats[j]
            if not all(hi_[k][1] <= hj[k][0] <= hi_[k][2] for k in range(len(stripes))):
                continue

            def f(*x, hi_=hi_, hj=hj):
                v = 1.0
                for k in range(len(x)):
                    v *= ref_hat1d(hi_[k][0], hi_[k][1], hi_[k][2], x[k]) * ref_hat1d(hj[k][0], hj[k][1], hj[k][2], x[k])
                return v
            rng = [[min(hi_[k][1], hj[k][1]), max(hi_[k][2], hj[k][2])] for k in range(len(stripes))]
            M[i, j] = M[j, i] = nquad(f, rng, opts={"epsabs": 1e-15, "epsrel": 1.0})[0]
    return M


# ----------------------------------------------------------------------------------------------------------------
# sub-check: non-uniform (dimension-wise) component grids, library functions called directly
# ----------------------------------------------------------------------------------------------------------------
class _Container(object):
    """stand-in for the refinement container that initialize_evaluation_dimension_wise/… write `.value` to"""
    def __init__(self):
        self.value = np.zeros(1)


KNOWN_UPPER = "upper-boundary-hat-ignores-samples-at-1"
# proportionality tolerance on non-uniform grids (relative to max|alpha|): reference = solve + shift + normalise of the
# observed system, condition number up to ~1e4 for lambda = 0 on deep trees; a wrong solve/normalisation is off by >= 1e-3
DW_TOL = 1e-8


def _drop_upper(data):
    """samples with a coordinate exactly 1.0 (their whole contribution vanishes when the upper boundary hat is 0 at 1)"""
    return np.array([any(c == 1.0 for c in p) for p in data.tolist()], dtype=bool)


def min_interval(stripes):
    return min(float(np.min(np.diff(np.asarray(s, dtype=float)))) for s in stripes)


def check_dimwise_grid(out, sub, op, stripes, levels, boundary, lam, lump, numeric, data, classes, info, tag,
                       R=None, B=None, alphas=None):
    """all clauses for one non-uniform grid.

    matrix clause:  R == G + lam I.  Tolerance max(1e-12 * max|G|, 1e-14 / h_min^2) absolute: the library evaluates
      antiderivatives with terms of size x^3/h^2, so its entries carry a rounding error of ~0.4e-16 / h_min^2 (measured:
      1.5e-13 at h=2^-6, 2.4e-12 at 2^-8, 6.2e-10 at 2^-12, 9.9e-9 at 2^-14); the bound is 250x above that.
    rhs clause:     B == b_ref (1e-12 absolute).
    surplus clause: the surpluses are checked against solve+shift+normalise applied to the *observed* R and B when those
      passed their own clause (so the 1/h^2 rounding of the matrix does not have to be absorbed by this tolerance), and
      against the reference G and b_ref otherwise.
    """
    G = ref_gram(stripes, boundary)
    w = ref_weights(stripes, boundary)
    bref = ref_b(stripes, boundary, data, classes)
    N = len(G)
    scale = _maxabs(G)
    info["max_N"] = max(info.get("max_N", 0), N)
    hmin = min_interval(stripes)
    atol = max(1e-12 * scale, 1e-14 / hmin ** 2)
    info["max_depth_log2"] = max(info.get("max_depth_log2", 0.0), float(-np.log2(hmin)))
    G_used = G
    if R is not None:
        R = np.asarray(R, dtype=float)
        want = (np.diag(G) + lam) if lump else (G + lam * np.eye(N))
        if R.shape != want.shape:
            out.bad(sub + ("/lumped/shape" if lump else "/gram/shape"), "%s R has shape %s expected %s" % (tag, R.shape, want.shape))
        else:
            dev = _maxabs(R - want)
            key = "max_numeric_dev_rel" if numeric else "max_gram_dev_times_h2"
            val = dev / scale if numeric else dev * hmin ** 2
            info[key] = max(info.get(key, 0.0), val)
            R_dense = np.diag(R) if lump else R
            spd = bool(np.all(R > 0)) if lump else (np.array_equal(R_dense, R_dense.T) and np.linalg.eigvalsh(R_dense)[0] > 0)
            if numeric and dev > 1e-9 * scale:
                L = loose_quad_gram(stripes, boundary, diagonal_only=lump)
                Lw = (np.diag(L) + lam) if lump else (L + lam * np.eye(N))
                if _maxabs(R - Lw) <= 1e-10 * scale:
                    i = np.unravel_index(np.argmax(np.abs(R - want)), R.shape)
                    out.bad(sub + "/gram-numeric/entry-is-quadrature-at-epsrel-1",
                            "%s numeric R%s=%r but Gram entry %r (max dev %g, rel. to max|G| %g): equals adaptive "
                            "quadrature of the right integrand stopped at relative tolerance 1"
                            % (tag, list(i), R[i], want[i], dev, dev / scale))
                    if spd:
                        G_used = R_dense - lam * np.eye(N)
                    else:
                        out.bad(sub + "/gram-numeric/not-positive-definite", "%s numeric matrix not s.p.d." % tag)
                elif lump:
                    i = int(np.argmax(np.abs(R - want)))
                    out.bad(sub + "/lumped-numeric/value", "%s lumped R[%d]=%r, Gram diagonal + lambda = %r"
                            % (tag, i, R[i], want[i]))
                else:
                    check_matrix(out, sub, R, G, lam, tag, tol=1e-9, clause="gram-numeric")
            elif lump:
                if dev > (1e-9 * scale if numeric else atol):
                    i = int(np.argmax(np.abs(R - want)))
                    out.bad(sub + "/lumped/value", "%s lumped R[%d]=%r, Gram diagonal + lambda = %r (tolerance %g)"
                            % (tag, i, R[i], want[i], atol))
                elif np.any(R <= 0):
                    out.bad(sub + "/lumped/not-positive", "%s min %g" % (tag, np.min(R)))
                else:
                    G_used = R_dense - lam * np.eye(N)
            else:
                if check_matrix(out, sub, R, G, lam, tag, tol=(1e-9 if numeric else atol / scale),
                                clause="gram-numeric" if numeric else "gram"):
                    G_used = R - lam * np.eye(N)
    upper = _drop_upper(data) if boundary else np.zeros(len(data), dtype=bool)
    bdrop = None
    if upper.any():
        A = ref_hatmatrix(stripes, boundary, data)
        if classes is not None:
            A = A * np.asarray(classes)[:, None]
        bdrop = (A * (~upper)[:, None]).sum(axis=0) / len(data)
        if _maxabs(bdrop - bref) <= 1e-12:
            bdrop = None
    b_used = bref
    if B is not None:
        B = np.asarray(B, dtype=float)
        if bdrop is not None and B.shape == bref.shape and _maxabs(B - bref) > 1e-12 and _maxabs(B - bdrop) <= 1e-12:
            out.bad(sub + "/rhs/" + KNOWN_UPPER, "%s %d sample(s) with a coordinate == 1.0 contribute nothing: "
                    "max|b-b_ref|=%g" % (tag, int(upper.sum()), _maxabs(B - bref)))
            b_used = bdrop
        elif check_b(out, sub, B, bref, tag, info=info):
            b_used = B
    if alphas is not None:
        if B is None and bdrop is not None:
            # only the surpluses are observed: decide between the reference and the "samples at 1 dropped" variant
            o1, o2 = Outcome(), Outcome()
            check_surpluses(o1, sub, alphas, G_used, lam, bref, w, classes is not None, lump, tag, tol=DW_TOL)
            if o1.violations:
                check_surpluses(o2, sub, alphas, G_used, lam, bdrop, w, classes is not None, lump, tag, tol=DW_TOL)
                if not o2.violations:
                    out.bad(sub + "/surplus/" + KNOWN_UPPER, "%s surpluses solve the system whose right-hand side lacks "
                            "the %d sample(s) with a coordinate == 1.0" % (tag, int(upper.sum())))
                    return N
        check_surpluses(out, sub, alphas, G_used, lam, b_used, w, classes is not None, lump, tag, info=info, tol=DW_TOL)
    return N


def run_dimwise(case):
    from sparseSpACE.GridOperation import DensityEstimation
    from sparseSpACE.Grid import GlobalTrapezoidalGrid
    from sparseSpACE.ComponentGridInfo import ComponentGridInfo
    out = Outcome()
    sub = "dimwise"
    d, lam, lump, boundary = case["d"], case["lam"], case["lump"], case["boundary"]
    numeric, reuse = case["numeric"], case["reuse"]
    data, classes = make_data(case)
    info = {}
    a, b = np.zeros(d), np.ones(d)
    grid = GlobalTrapezoidalGrid(a=a, b=b, modified_basis=False, boundary=boundary)
    grid2 = GlobalTrapezoidalGrid(a=a, b=b, modified_basis=False, boundary=boundary)
    op = DensityEstimation(data.copy(), d, grid=grid, masslumping=lump, lambd=lam,
                           classes=None if classes is None else classes.copy(), reuse_old_values=reuse,
                           numeric_calculation=numeric, print_level=Q, log_level=Q)
    built = [[tree_stripe(t["splits"], t["lmin"]) for t in trees] for trees in case["grids"]]
    lmaxv = max(max(max(l) for _, l in g) for g in built)
    cont = _Container()
    with silent():
        op.init_dimension_wise(grid, grid2, cont, [1] * d, [max(lmaxv, 2)] * d, a, b)
        op.initialize_evaluation_dimension_wise(cont)
    if not np.array_equal(np.asarray(op.data), data):
        out.bad(sub + "/data-rescaled", "initialize() changed data lying in [0,1]^d")
    nline = 0
    nonuniform = False
    for gi, g in enumerate(built):
        stripes = [list(s) for s, _ in g]
        levels = [list(l) for _, l in g]
        lv = tuple(max(l) for l in levels)
        tag = "grid %d stripes=%s lam=%g lump=%s numeric=%s boundary=%s" % (gi, stripes, lam, lump, numeric, boundary)
        cg = ComponentGridInfo(lv, 1)
        R = B = al = None
        try:
            with silent():
                R = op.build_R_matrix_dimension_wise(stripes, levels)
                B = op.calculate_B_dimension_wise(op.data, stripes, levels)
                op.calculate_operation_dimension_wise(stripes, levels, cg)
            al = op.surpluses.get(lv)
        except ZeroDivisionError as e:
            import traceback
            fr = traceback.extract_tb(e.__traceback__)[-1]
            if boundary and _drop_upper(data).any() and fr.name == "hat_function_non_symmetric":
                out.bad(sub + "/rhs/exception-" + KNOWN_UPPER, "%s ZeroDivisionError in hat_function_non_symmetric for a "
                        "sample with a coordinate == 1.0 (N>=200 path)" % tag)
            else:
                raise
        if al is None and R is not None and B is not None:
            out.bad(sub + "/surplus/missing-grid", "%s no surpluses stored" % tag)
        N = check_dimwise_grid(out, sub, op, stripes, levels, boundary, lam, lump, numeric, data, classes, info, tag,
                               R=R, B=B, alphas=al)
        nline += on_grid_line(stripes, data)
        if any(len(set(np.diff(s).tolist())) > 1 for s in stripes):
            nonuniform = True
        out.cls("N>=200" if N >= 200 else "N<200")
        if boundary and N >= 200:
            out.cls("boundary=True&grid>=200")
    out.nontrivial = nonuniform and nline >= 1
    out.cls("d=%d" % d, "lump" if lump else "full", "lam=%g" % lam, "labels" if classes is not None else "no-labels",
            "boundary" if boundary else "no-boundary", "numeric" if numeric else "analytic",
            "R-cache" if reuse else "no-cache", "grids=%d" % len(built))
    if nonuniform:
        out.cls("non-uniform")
    if nline:
        out.cls("sample-on-grid-line")
    if any(0.0 in p or 1.0 in p for p in data.tolist()):
        out.cls("sample-on-domain-boundary")
    info["max_samples"] = len(data)
    out.info = info
    return out


def dimwise_strategy(tier):
    @st.composite
    def s(draw):
        d = draw(st.integers(1, 3))
        numeric = draw(st.sampled_from([False] * (11 if tier == "quick" else 5) + [True]))
        big = (not numeric) and draw(st.sampled_from([False] * 5 + [True]))       # aim at the N >= 200 path
        # boundary points: 1 in 6 of the small grids, 1 in 3 of the grids aiming at >= 200 basis functions
        boundary = draw(st.sampled_from([False, False, True] if big else [False] * 5 + [True]))
        if numeric:
            d = min(d, 2)
        ngrids = 1 if numeric else draw(st.sampled_from([1, 1, 2]))
        maxN = 9 if numeric else (420 if big else 150)
        grids = []
        for _ in range(ngrids):
            while True:
                trees = []
                for k in range(d):
                    lmin = draw(st.integers(1, 3 if big else 2))
                    ns = draw(st.integers(0, 2 if numeric else (12 if big else 6)))
                    trees.append(dict(lmin=lmin, splits=[draw(st.integers(0, 63)) for _ in range(ns)]))
                sizes = [len(tree_stripe(t["splits"], t["lmin"])[0]) - (0 if boundary else 2) for t in trees]
                if int(np.prod(sizes)) <= maxN:
                    break
                # too large: shorten the longest tree deterministically
                k = int(np.argmax(sizes))
                trees[k] = dict(lmin=1, splits=trees[k]["splits"][:2])
                sizes = [len(tree_stripe(t["splits"], t["lmin"])[0]) - (0 if boundary else 2) for t in trees]
                if int(np.prod(sizes)) <= maxN:
                    break
                trees = [dict(lmin=1, splits=t["splits"][:1]) for t in trees]
                break
            grids.append(trees)
        stripes0 = [tree_stripe(t["splits"], t["lmin"])[0] for t in grids[0]]
        case = dict(d=d, boundary=boundary, numeric=numeric,
                    reuse=False if numeric else draw(st.sampled_from([False, False, True])),
                    lam=draw(st.sampled_from(LAMBDAS)), lump=draw(st.sampled_from([False, False, True])),
                    grids=grids, rng=draw(st.integers(0, 2 ** 31 - 1)))
        case["data"] = draw(data_strategy(stripes0, 12 if tier == "quick" else 30))
        case["bulk"] = draw(st.sampled_from([0, 0, 0, 10, 40]))
        case["snap_res"] = [4] * d
        case["labels"] = [draw(st.sampled_from([-1, 1])) for _ in case["data"]] if draw(st.booleans()) else None
        return case
    return s()


# ----------------------------------------------------------------------------------------------------------------
# sub-check: a real SpatiallyAdaptiveSingleDimensions2 run, every component-grid solve is compared with the oracle
# ----------------------------------------------------------------------------------------------------------------
def run_sasd(case):
    from sparseSpACE.GridOperation import DensityEstimation
    from sparseSpACE.Grid import GlobalTrapezoidalGrid
    from sparseSpACE.spatiallyAdaptiveSingleDimension2 import SpatiallyAdaptiveSingleDimensions2
    from sparseSpACE.ErrorCalculator import ErrorCalculator

    class Scripted(ErrorCalculator):
        def __init__(self, vals):
            super().__init__(log_level=Q, print_level=Q)
            self.vals, self.i = vals, 0

        def calc_error(self, obj, norm, volume_weights=None):
            v = self.vals[self.i % len(self.vals)]
            self.i += 1
            return v

    out = Outcome()
    sub = "sasd"
    d, lam, lump, boundary = case["d"], case["lam"], case["lump"], case["boundary"]
    data, classes = make_data(case)
    info = {}
    a, b = np.zeros(d), np.ones(d)
    grid = GlobalTrapezoidalGrid(a=a, b=b, modified_basis=False, boundary=boundary)
    reuse = bool(case.get("reuse", False))
    steps = case.get("steps")            # stop after this many evaluations (reuse cases); None = max_evaluations decides
    op = DensityEstimation(data.copy(), d, grid=grid, masslumping=lump, lambd=lam,
                           classes=None if classes is None else classes.copy(), reuse_old_values=reuse,
                           print_level=Q, log_level=Q)
    sa = SpatiallyAdaptiveSingleDimensions2(a, b, operation=op, margin=case["margin"], rebalancing=case["rebalancing"],
                                            print_level=Q, log_level=Q)
    calls = []
    last = {}
    state = dict(evaluation=0, key_found=0, find_data=0)
    orig, orig_R, orig_B = op.calculate_operation_dimension_wise, op.build_R_matrix_dimension_wise, op.calculate_B_dimension_wise
    orig_key, orig_find, orig_post, orig_refine = op.find_closest_old_B, op.find_data_in_domain, op.post_processing, sa.refine

    class _StopRun(Exception):
        pass

    def observe_key(*a, **k):
        r = orig_key(*a, **k)
        if r is not None:
            state["key_found"] += 1
        return r

    def observe_find(*a, **k):
        state["find_data"] += 1
        return orig_find(*a, **k)

    def observe_post(*a, **k):
        r = orig_post(*a, **k)
        state["evaluation"] += 1          # one complete evaluation of all component grids is finished
        return r

    def observe_refine(*a, **k):
        if steps is not None and state["evaluation"] >= steps:
            raise _StopRun()
        return orig_refine(*a, **k)

    def observe_R(*a, **k):
        last["R"] = np.array(orig_R(*a, **k), dtype=float)
        return last["R"].copy()

    def observe_B(*a, **k):
        last["B"] = np.array(orig_B(*a, **k), dtype=float)
        return last["B"].copy()

    def observer(stripes, levels, cg):
        last.clear()
        k0, f0 = state["key_found"], state["find_data"]
        r = orig(stripes, levels, cg)
        lv = tuple(int(x) for x in cg.levelvector)
        calls.append(([[float(x) for x in s] for s in stripes], [[int(x) for x in l] for l in levels], lv,
                      np.array(op.surpluses[lv], dtype=float).copy(), last.get("R"), last.get("B"),
                      dict(evaluation=state["evaluation"], key_found=state["key_found"] - k0,
                           find_data=state["find_data"] - f0)))
        return r
    # instance-level observers (the library calls these through self.<name>)
    op.calculate_operation_dimension_wise = observer
    op.build_R_matrix_dimension_wise = observe_R
    op.calculate_B_dimension_wise = observe_B
    op.find_closest_old_B = observe_key
    op.find_data_in_domain = observe_find
    op.post_processing = observe_post
    sa.refine = observe_refine
    try:
        with silent():
            sa.performSpatiallyAdaptiv(case["lmin"], case["lmax"], Scripted(case["errors"]), -1.0,
                                       max_evaluations=case["max_evaluations"], print_output=False)
    except _StopRun:
        pass
    except ZeroDivisionError as e:
        import traceback
        fr = traceback.extract_tb(e.__traceback__)[-1]
        if boundary and _drop_upper(data).any() and fr.name == "hat_function_non_symmetric":
            out.bad(sub + "/rhs/exception-" + KNOWN_UPPER, "ZeroDivisionError in hat_function_non_symmetric for a sample "
                    "with a coordinate == 1.0 (N>=200 path)")
        else:
            raise
    nline = 0
    nonuniform = 0
    big = reused_big = recomputed = boundary_big = 0
    for k, (stripes, levels, lv, al, Robs, Bobs, st_) in enumerate(calls):
        tag = "call %d evaluation %d levelvec=%s reuse=%s old-b-key=%d find_data_in_domain=%d stripes=%s" % (
            k, st_["evaluation"], lv, reuse, st_["key_found"], st_["find_data"], stripes)
        if al.size >= 200:
            big += 1
            if boundary:
                boundary_big += 1
            if reuse and st_["evaluation"] >= 1:
                reused_big += 1
        if st_["key_found"] and st_["find_data"]:
            recomputed += 1
        for s in stripes:
            if s[0] != 0.0 or s[-1] != 1.0 or any(s[i] >= s[i + 1] for i in range(len(s) - 1)):
                raise AssertionError("harness: unexpected stripe %s" % s)
        if Robs is None or Bobs is None:
            raise AssertionError("harness: R/B observers were not called inside calculate_operation_dimension_wise")
        check_dimwise_grid(out, sub, op, stripes, levels, boundary, lam, lump, False, data, classes, info, tag,
                           R=Robs, B=Bobs, alphas=al)
        nl = on_grid_line(stripes, data)
        nu = any(len(set(np.diff(s).tolist())) > 1 for s in stripes)
        nline += 1 if (nl and nu) else 0
        nonuniform += 1 if nu else 0
    out.nontrivial = nline >= 1
    out.cls("d=%d" % d, "lump" if lump else "full", "lam=%g" % lam, "labels" if classes is not None else "no-labels",
            "boundary" if boundary else "no-boundary", "rebalancing" if case["rebalancing"] else "no-rebalancing",
            "reuse=True" if reuse else "reuse=False")
    if nonuniform:
        out.cls("non-uniform-grid-solved")
    if big:
        out.cls("grid>=200")
    if boundary_big:
        out.cls("boundary=True&grid>=200")
    if reused_big:
        out.cls("evaluation>=1-with-reuse-and-grid>=200")
    if recomputed:
        out.cls("b-entries-recomputed-via-find_data_in_domain")     # old b found AND entries recomputed from the data bins
    info["max_evaluations_done"] = state["evaluation"]
    info["max_solves_boundary_grid>=200"] = boundary_big
    info["max_solves_reuse_grid>=200"] = reused_big
    info["max_solves_with_recomputed_b"] = recomputed
    info["max_solves"] = len(calls)
    info["max_nonuniform_solves"] = nonuniform
    info["max_samples"] = len(data)
    out.info = info
    return out


def sasd_strategy(tier):
    @st.composite
    def s(draw):
        d = draw(st.integers(1, 2 if tier == "quick" else 3))
        lmin = draw(st.integers(1, 2))
        lmax = lmin + draw(st.integers(1, 2))
        case = dict(d=d, lmin=lmin, lmax=lmax, boundary=draw(st.sampled_from([False] * 5 + [True])),
                    lam=draw(st.sampled_from(LAMBDAS)), lump=draw(st.sampled_from([False, False, True])),
                    margin=draw(st.sampled_from([0.5, 0.9])), rebalancing=draw(st.booleans()),
                    max_evaluations=draw(st.integers(5, 60 if tier == "quick" else 120)),
                    errors=[draw(st.sampled_from([0.0, 0.0, 0.5, 0.95, 1.0])) for _ in range(draw(st.integers(1, 12)))],
                    rng=draw(st.integers(0, 2 ** 31 - 1)))
        case["data"] = draw(data_strategy([lmax + 1] * d, 10 if tier == "quick" else 25))
        case["bulk"] = draw(st.sampled_from([0, 0, 10, 30]))
        case["snap_res"] = [lmax + 1] * d
        case["labels"] = [draw(st.sampled_from([-1, 1])) for _ in case["data"]] if draw(st.booleans()) else None
        return case

    @st.composite
    def big_case(draw):
        """component grids with >= 200 basis functions and 2..4 complete evaluations, in two flavours:
        'reuse'    reuse_old_values=True, no boundary points: from the second evaluation on calculate_B_dimension_wise
                   copies the old b and recomputes the rest through find_data_in_domain;
        'boundary' boundary=True (9x33, 17x17, 33x9 ... points), reuse off, samples on the domain boundary included: the
                   per-sample branch of calculate_B_dimension_wise with boundary hats;
        'reuse+boundary' both: the copy step must identify a hat by grid point AND domain (a boundary half hat and the
                   interior hat next to it can share a domain when the old grid is a different component grid).
        Mass lumping keeps the reuse runs cheap (the cached dense R build costs ~10 s per grid)."""
        flavour = draw(st.sampled_from(["reuse", "reuse", "boundary", "reuse+boundary"]))
        shape = draw(st.sampled_from(["2d", "2d", "2d", "1d"] if tier == "quick" else ["2d", "2d", "1d", "2d-fine"]))
        if "boundary" in flavour and shape == "2d-fine":
            shape = "2d"
        d, lmin, lmax = {"2d": (2, 3, 5), "1d": (1, 7, 8), "2d-fine": (2, 4, 5)}[shape]
        errors = [draw(st.sampled_from([0.0, 0.0, 0.0, 0.5, 1.0])) for _ in range(draw(st.integers(3, 12)))]
        errors[draw(st.integers(0, len(errors) - 1))] = 1.0          # never "all equal" (= refine everything)
        if "reuse" in flavour:
            lump = True if (tier == "quick" or shape == "2d-fine") else draw(st.sampled_from([True, True, True, False]))
        else:
            lump = draw(st.sampled_from([True, False]))
        case = dict(d=d, lmin=lmin, lmax=lmax, boundary="boundary" in flavour, reuse="reuse" in flavour,
                    steps=draw(st.sampled_from([2, 3, 3] if tier == "quick" else [2, 3, 4])),
                    lam=draw(st.sampled_from(LAMBDAS)), lump=lump,
                    margin=draw(st.sampled_from([0.5, 0.9, 0.9])), rebalancing=draw(st.booleans()),
                    max_evaluations=10 ** 9, errors=errors, rng=draw(st.integers(0, 2 ** 31 - 1)))
        if not lump:
            case["steps"] = 2
        # 100..400 samples: seeded bulk (15% of the coordinates on grid lines) plus a few explicit samples on grid lines /
        # on the domain boundary / duplicates.  In the reuse flavour the bulk stays strictly inside the domain (a sample
        # at x_d = 1 contributes nothing without boundary hats and would mask a dropped maximal sample) and the explicit
        # samples are present in half of the cases; in the boundary flavour both may lie on the domain boundary.
        if "boundary" in flavour or draw(st.booleans()):
            case["data"] = draw(data_strategy([lmax + 1] * d, 5))
        else:
            case["data"] = []
        case["bulk"] = draw(st.sampled_from([100, 150, 200, 300, 400]))
        case["bulk_inner"] = flavour == "reuse"
        case["snap_res"] = [lmax + 1] * d
        case["labels"] = [draw(st.sampled_from([-1, 1])) for _ in case["data"]] if draw(st.booleans()) else None
        return case
    return st.one_of(s(), s(), big_case())


def sasd_fixed():
    """deterministic runs with component grids of >= 200 basis functions (2D, lmin 3, lmax 5): one with
    reuse_old_values=True (217/225 points, three evaluations), one with boundary=True (9x33, 17x17, 33x9 points), one with
    both (F-C16-reuse-boundary: copied entries of b came from the wrong hat)"""
    return [dict(d=2, lmin=3, lmax=5, boundary=False, reuse=True, steps=3, lam=0.001, lump=True, margin=0.9,
                 rebalancing=False, max_evaluations=10 ** 9, errors=[0.0, 0.0, 0.0, 0.5, 1.0, 0.0, 0.0, 0.0], rng=1,
                 data=[], bulk=200, bulk_inner=True, snap_res=[6, 6], labels=None),
            dict(d=2, lmin=3, lmax=5, boundary=True, reuse=False, steps=2, lam=0.001, lump=False, margin=0.9,
                 rebalancing=False, max_evaluations=10 ** 9, errors=[0.0, 0.0, 0.0, 0.5, 1.0, 0.0, 0.0, 0.0], rng=2,
                 data=[[1.0, 0.5], [0.0, 0.0], [0.25, 1.0], [0.5, 0.5], [0.5, 0.5], [0.0, 0.71]], bulk=200,
                 bulk_inner=False, snap_res=[6, 6], labels=[1, -1, 1, 1, -1, 1]),
            dict(d=2, lmin=3, lmax=5, boundary=True, reuse=True, steps=2, lam=0.001, lump=True, margin=0.9,
                 rebalancing=False, max_evaluations=10 ** 9, errors=[0.0, 0.0, 0.0, 0.5, 1.0, 0.0, 0.0, 0.0], rng=1,
                 data=[[1.0, 0.5], [0.0, 0.0], [0.25, 1.0], [0.5, 0.5]], bulk=200, bulk_inner=False, snap_res=[6, 6],
                 labels=None)]


# ----------------------------------------------------------------------------------------------------------------
# sub-check: the seven hat evaluations
# ----------------------------------------------------------------------------------------------------------------
HAT_TOL = 1e-13   # values in [0,1]; rounding seen <= 3e-16


def _hat_cause(stripes, boundary, hats, pts, bad):
    """coarse cause of the deviating (point, hat) pairs: where does the point lie relative to the hat"""
    order = ["peak-of-upper-boundary-hat", "peak-of-lower-boundary-hat", "peak", "support-end", "interior"]
    cats = set()
    for j, i in bad[:50]:
        c, lo, hi = hats[i]
        x = pts[j]
        found = {"interior"}
        for k in range(len(x)):
            if x[k] == c[k]:
                found.add("peak-of-upper-boundary-hat" if (boundary and c[k] == hi[k]) else (
                    "peak-of-lower-boundary-hat" if (boundary and c[k] == lo[k]) else "peak"))
            elif x[k] == lo[k] or x[k] == hi[k]:
                found.add("support-end")
        cats.add(min(found, key=order.index))
    return sorted(cats)[0] if len(cats) == 1 else "+".join(sorted(cats))


def run_hats(case):
    from sparseSpACE.GridOperation import DensityEstimation
    from sparseSpACE.Grid import GlobalTrapezoidalGrid
    from vlib.core import guarded
    out = Outcome()
    sub = "hats"
    d, boundary = case["d"], case["boundary"]
    if case["kind"] == "uniform":
        stripes = uniform_stripes(case["levels"])
    else:
        stripes = [tree_stripe(t["splits"], t["lmin"])[0] for t in case["trees"]]
    pts = np.array(case["points"], dtype=float)
    M = len(pts)
    A = ref_hatmatrix(stripes, boundary, pts)                                  # M x K reference values
    hd = [_hat_domains(s, boundary) for s in stripes]
    hats = [(tuple(h[0] for h in combo), tuple(h[1] for h in combo), tuple(h[2] for h in combo))
            for combo in itertools.product(*hd)]                              # (centre, lower, upper) per hat
    K = len(hats)
    centres = np.array([h[0] for h in hats])
    lower = np.array([h[1] for h in hats])
    upper = np.array([h[2] for h in hats])
    insup = np.all((pts[:, None, :] >= lower[None]) & (pts[:, None, :] <= upper[None]), axis=2)    # M x K
    a, b = np.zeros(d), np.ones(d)
    info = {}
    results = {}

    def compare(name, V, mask=None):
        V = np.asarray(V, dtype=float)
        if V.shape != A.shape:
            out.bad("%s/%s/shape" % (sub, name), "shape %s expected %s" % (V.shape, A.shape))
            return
        results[name] = (V, mask)
        D = np.abs(V - A)
        if mask is not None:
            D = np.where(mask, D, 0.0)
        D = np.where(np.isnan(D), np.inf, D)
        info["max_hat_dev"] = max(info.get("max_hat_dev", 0.0), float(np.max(D)) if np.isfinite(np.max(D)) else 1.0)
        bad = list(zip(*np.nonzero(D > HAT_TOL)))
        if bad:
            j, i = bad[0]
            out.bad("%s/%s/%s" % (sub, name, _hat_cause(stripes, boundary, hats, pts, bad)),
                    "hat centre=%s support=[%s,%s] at x=%s: got %r want %r (%d deviating pairs; stripes=%s)"
                    % (hats[i][0], hats[i][1], hats[i][2], pts[j].tolist(), V[j, i], A[j, i], len(bad), stripes))

    # ---- non-symmetric family (any stripes) ----
    grid = GlobalTrapezoidalGrid(a=a, b=b, modified_basis=False, boundary=boundary)
    op = DensityEstimation(pts.copy(), d, grid=grid, print_level=Q, log_level=Q)
    domains = [[(float(lower[i][k]), float(upper[i][k])) for k in range(d)] for i in range(K)]
    cpy = [tuple(float(x) for x in centres[i]) for i in range(K)]
    ppy = [[float(x) for x in p] for p in pts]

    def scalar_ns_safe():
        # the scalar version divides by (upper - centre): for an upper-boundary half hat that is 0 at x == 1
        V = np.full((M, K), np.nan)
        zde = []
        for j in range(M):
            for i in range(K):
                try:
                    V[j, i] = op.hat_function_non_symmetric(cpy[i], domains[i], ppy[j])
                except ZeroDivisionError:
                    zde.append((j, i))
        return V, zde

    V, zde = scalar_ns_safe()
    if zde:
        out.bad("%s/non_symmetric/ZeroDivisionError-%s" % (sub, _hat_cause(stripes, boundary, hats, pts, zde)),
                "hat centre=%s support=[%s,%s] at x=%s" % (hats[zde[0][1]][0], hats[zde[0][1]][1], hats[zde[0][1]][2],
                                                          pts[zde[0][0]].tolist()))
        msk = np.ones((M, K), dtype=bool)
        for j, i in zde:
            msk[j, i] = False
        compare("non_symmetric", np.where(msk, V, 0.0), msk)
    else:
        compare("non_symmetric", V)
    V = guarded(sub, out, op.hat_function_non_symmetric_completely_vectorized, centres, lower, upper, pts)
    if V is not None:
        compare("non_symmetric_completely_vectorized", V)
    # vectorised over hats, one point, hats restricted to those whose closed support contains the point
    if not boundary:
        Vv = np.zeros((M, K))
        ok = True
        for j in range(M):
            sel = np.nonzero(insup[j])[0]
            if len(sel) == 0:
                continue
            dom = np.array([[[lower[i][k], upper[i][k]] for k in range(d)] for i in sel])
            r = guarded(sub, out, op.hat_function_non_symmetric_vectorized, centres[sel], dom, pts[j])
            if r is None:
                ok = False
                break
            Vv[j, sel] = r
        if ok:
            compare("non_symmetric_vectorized", Vv, insup)
    # the library's own derivation of (points, lower, upper) from the stripes must be the neighbour construction
    with silent():
        grid.set_grid(stripes, [[0] * len(s) for s in stripes])
    P, L, U = op.get_hat_domain_for_every_grid_point_vectorized([np.array(s) for s in stripes])
    if not (np.array_equal(np.asarray(P, dtype=float), centres) and np.array_equal(np.asarray(L, dtype=float), lower)
            and np.array_equal(np.asarray(U, dtype=float), upper)):
        out.bad(sub + "/hat-domains/neighbour-construction", "get_hat_domain_for_every_grid_point_vectorized differs "
                "from (point, left neighbour, right neighbour) for stripes %s" % stripes)
    # ---- symmetric family (uniform level vector) ----
    if case["kind"] == "uniform":
        lv = np.array(case["levels"], dtype=int)
        opu = DensityEstimation(pts.copy(), d, print_level=Q, log_level=Q)
        opu.grid.setCurrentArea(a, b, tuple(case["levels"]))
        ivecs = np.array(list(itertools.product(*[range(1, 2 ** l) for l in case["levels"]])), dtype=int)
        if len(ivecs) != K:
            raise AssertionError("harness: index list / hat list mismatch")
        V = np.zeros((M, K))
        for j in range(M):
            for i in range(K):
                V[j, i] = opu.hat_function(tuple(int(x) for x in ivecs[i]), tuple(case["levels"]), pts[j])
        compare("hat_function", V)
        V = guarded(sub, out, opu.hat_function_in_support_completely_vectorized, ivecs, lv, pts)
        if V is not None:
            compare("in_support_completely_vectorized", V)
        Vs = np.zeros((M, K))
        Vv = np.zeros((M, K))
        ok = True
        for j in range(M):
            sel = np.nonzero(insup[j])[0]
            if len(sel) == 0:
                continue
            r = guarded(sub, out, opu.hat_function_in_support_vectorized, ivecs[sel], lv, pts[j])
            if r is None:
                ok = False
                break
            Vv[j, sel] = r
            for i in sel:
                r1 = guarded(sub, out, opu.hat_function_in_support, ivecs[i], lv, pts[j])
                if r1 is None:
                    ok = False
                    break
                Vs[j, i] = r1
            if not ok:
                break
        if ok:
            compare("in_support", Vs, insup)
            compare("in_support_vectorized", Vv, insup)
    # ---- pairwise agreement (on the common domain of validity) ----
    names = sorted(results)
    for x in range(len(names)):
        for y in range(x + 1, len(names)):
            V1, m1 = results[names[x]]
            V2, m2 = results[names[y]]
            msk = np.ones((M, K), dtype=bool)
            for m in (m1, m2):
                if m is not None:
                    msk &= m
            D = np.where(msk, np.abs(V1 - V2), 0.0)
            D = np.where(np.isnan(D), np.inf, D)
            bad = list(zip(*np.nonzero(D > 2 * HAT_TOL)))
            if bad:
                j, i = bad[0]
                out.bad("%s/pairwise/%s-vs-%s/%s" % (sub, names[x], names[y], _hat_cause(stripes, boundary, hats, pts, bad)),
                        "hat centre=%s support=[%s,%s] at x=%s: %r vs %r" % (hats[i][0], hats[i][1], hats[i][2],
                                                                             pts[j].tolist(), V1[j, i], V2[j, i]))
    npeak = int(np.sum(np.any(pts[:, None, :] == centres[None], axis=2) & insup))
    nend = on_grid_line(stripes, pts.tolist())
    nonuni = any(len(set(np.diff(s).tolist())) > 1 for s in stripes)
    aniso = case["kind"] == "uniform" and d >= 2 and len(set(case["levels"])) > 1
    out.nontrivial = (nonuni or aniso) and nend >= 1
    out.cls("d=%d" % d, "kind=" + case["kind"], "boundary" if boundary else "no-boundary")
    if nend:
        out.cls("point-on-grid-line")
    if np.any((pts == 0.0) | (pts == 1.0)):
        out.cls("point-on-domain-boundary")
    info["max_hats"] = K
    info["max_points"] = M
    out.info = info
    return out


def hats_strategy(tier):
    @st.composite
    def s(draw):
        d = draw(st.integers(1, 3))
        kind = draw(st.sampled_from(["uniform", "tree"]))
        case = dict(d=d, kind=kind, boundary=False)
        if kind == "uniform":
            lv = [draw(st.integers(1, 4 if d < 3 else 3)) for _ in range(d)]
            case["levels"] = lv
            stripes = uniform_stripes(lv)
        else:
            case["boundary"] = draw(st.sampled_from([False, False, False, True]))
            trees = [dict(lmin=draw(st.integers(1, 2)), splits=[draw(st.integers(0, 63)) for _ in range(draw(st.integers(0, 5)))])
                     for _ in range(d)]
            case["trees"] = trees
            stripes = [tree_stripe(t["splits"], t["lmin"])[0] for t in trees]
        case["points"] = draw(data_strategy(stripes, 8 if tier == "quick" else 20))
        return case
    return s()


def selftest():
    # closed forms: three uniform hats on [0,1] (h = 1/4): diag 2h/3 = 1/6, off-diagonal h/6 = 1/24
    G = ref_gram(uniform_stripes([2]), False)
    assert np.allclose(G, np.array([[1 / 6, 1 / 24, 0], [1 / 24, 1 / 6, 1 / 24], [0, 1 / 24, 1 / 6]]), atol=1e-16), G
    # non-uniform stripe 0, .5, .75, 1 without boundary: [[(.5+.25)/3, .25/6], [.25/6, .5/3]]
    G2 = ref_gram([[0, 0.5, 0.75, 1.0]], False)
    assert np.allclose(G2, np.array([[0.25, 0.25 / 6], [0.25 / 6, 0.5 / 3]]), atol=1e-16), G2
    # with boundary half hats: first diagonal entry .5/3
    G3 = ref_gram([[0, 0.5, 1.0]], True)
    assert np.allclose(G3, np.array([[1 / 6, 1 / 12, 0], [1 / 12, 1 / 3, 1 / 12], [0, 1 / 12, 1 / 6]]), atol=1e-16), G3
    # Kronecker ordering: 2D (1,2): 1 x 3 points
    G4 = ref_gram(uniform_stripes([1, 2]), False)
    assert G4.shape == (3, 3) and abs(G4[0, 0] - (1 / 3) * (1 / 6)) < 1e-16 and abs(G4[0, 1] - (1 / 3) / 24) < 1e-16
    # Gram matrix must equal the numerically integrated products (independent check of the assembly)
    xs = (np.arange(200000) + 0.5) / 200000
    A = ref_hatmatrix1d([0, 0.5, 0.75, 1.0], True, xs)
    assert np.allclose(A.T @ A / len(xs), ref_mass1d([0, 0.5, 0.75, 1.0], True), atol=1e-9)
    assert np.allclose(A.sum(axis=0) / len(xs), ref_weights([[0, 0.5, 0.75, 1.0]], True), atol=1e-9)
    # hats
    assert ref_hat1d(0.5, 0.25, 0.75, 0.5) == 1 and ref_hat1d(0.5, 0.25, 0.75, 0.25) == 0
    assert ref_hat1d(0.5, 0.25, 0.75, 0.375) == 0.5 and ref_hat1d(0.5, 0.0, 0.75, 0.625) == 0.5
    assert ref_hat1d(0.0, 0.0, 0.5, 0.25) == 0.5 and ref_hat1d(1.0, 0.5, 1.0, 1.0) == 1.0
    # right-hand side: one sample at the peak of hat 2 of level 2 in 1D -> b = e_2 ; label -1 flips the sign
    b = ref_b(uniform_stripes([2]), False, [[0.5]], None)
    assert np.array_equal(b, [0, 1, 0])
    b = ref_b(uniform_stripes([2]), False, [[0.5], [0.375]], [1, -1])
    assert np.allclose(b, [-0.25, 0.25, 0]), b
    # the checkers must reject corrupted objects
    o = Outcome()
    Gc = G.copy()
    Gc[0, 1] *= 2
    check_matrix(o, "t", Gc, G, 0.0, "selftest")
    assert any("not-symmetric" in s for s, _ in o.violations) and any("off-diagonal" in s for s, _ in o.violations), o
    o = Outcome()
    check_matrix(o, "t", G + 0.1 * np.ones_like(G), G, 0.1, "selftest")       # lambda added everywhere
    assert any("off-diagonal" in s for s, _ in o.violations), o.violations
    o = Outcome()
    check_b(o, "t", np.array([0, 0.5, 0]), np.array([0, 1.0, 0]), "selftest")
    assert o.violations
    w = ref_weights(uniform_stripes([2]), False)
    bref = ref_b(uniform_stripes([2]), False, [[0.3], [0.5], [0.9]], None)
    want, deg = ref_surpluses(G, 0.1, bref, w, False, False)
    assert not deg and abs(np.inner(np.clip(want, 0, None), w) / w.sum() - 1) < 1e-14
    o = Outcome()
    check_surpluses(o, "t", want, G, 0.1, bref, w, False, False, "selftest")
    assert not o.violations, o.violations
    o = Outcome()
    check_surpluses(o, "t", 2 * want, G, 0.1, bref, w, False, False, "selftest")
    assert any("not-normalised" in s for s, _ in o.violations) and any("wrong-scale" in s for s, _ in o.violations)
    o = Outcome()
    check_surpluses(o, "t", ref_surpluses(G, 0.0, bref, w, False, False)[0], G, 0.1, bref, w, False, False, "selftest")
    assert any("not-proportional" in s for s, _ in o.violations), o.violations
    # tree stripes: bisecting interval 1 of [0,.5,1] gives [0,.5,.75,1] with levels [0,1,2,0]
    assert tree_stripe([1], 1) == ([0.0, 0.5, 0.75, 1.0], [0, 1, 2, 0])
    assert tree_stripe([], 2) == ([0.0, 0.25, 0.5, 0.75, 1.0], [0, 2, 1, 2, 0])
    # hat comparison must reject a corrupted evaluation: reference matrix vs. a version that is 2 at the peak
    A = ref_hatmatrix(uniform_stripes([2]), False, [[0.5], [0.3]])
    assert np.allclose(A, [[0, 1, 0], [0.8, 0.2, 0]])
    # a case through the library must be clean
    o = run_uniform(dict(d=2, mode="direct", lam=0.1, lump=False, rng=1, levels=[1, 3],
                         data=[[0.5, 0.25], [0.3, 0.7], [0.0, 1.0]], bulk=0, labels=None))
    assert not o.violations and o.nontrivial, (o.violations, o.nontrivial)
    o = run_dimwise(dict(d=2, boundary=False, numeric=False, reuse=False, lam=0.001, lump=False, rng=3,
                         grids=[[dict(lmin=1, splits=[1]), dict(lmin=2, splits=[0, 3])]],
                         data=[[0.75, 0.125], [0.5, 0.5], [1.0, 0.3]], bulk=5, labels=[1, -1, 1]))
    assert not o.violations and o.nontrivial, (o.violations, o.nontrivial)
    o = run_hats(dict(d=2, kind="uniform", boundary=False, levels=[1, 2], points=[[0.5, 0.25], [0.3, 0.5], [0.0, 1.0]]))
    assert not o.violations and o.nontrivial, (o.violations, o.nontrivial)


def uniform_fixed():
    """deterministic shapes that the random search reaches only occasionally (N >= 200 path with labels / lumping)"""
    pts = [[0.5, 0.25], [0.0625, 0.9375], [1.0, 0.5], [0.3, 0.7], [0.3, 0.7], [0.0, 0.0]]
    return [
        dict(d=2, mode="direct", lam=0.001, lump=False, rng=11, levels=[5, 3], data=pts, bulk=40, snap_res=[5, 3],
             labels=[1, -1, 1, -1, -1, 1]),
        dict(d=3, mode="direct", lam=0.1, lump=True, rng=12, levels=[3, 2, 4], data=[p + [0.5] for p in pts], bulk=40,
             snap_res=[3, 2, 4], labels=None),
        dict(d=2, mode="combi", lam=0.1, lump=False, rng=14, lmin=1, lmax=4, data=pts, bulk=10, snap_res=[4, 4],
             labels=None),
    ]


def dimwise_fixed():
    big = [dict(lmin=3, splits=[0, 2, 5, 9, 11, 3, 7, 14]), dict(lmin=3, splits=[1, 1, 4, 13, 8, 2, 10])]
    pts = [[0.5, 0.25], [0.0625, 0.9375], [1.0, 0.5], [0.3, 0.7], [0.3, 0.7], [0.0, 0.0], [0.125, 0.1875]]
    inner = [[0.5, 0.25], [0.0625, 0.9375], [0.3, 0.7], [0.75, 0.75], [0.999, 0.001]]
    return [
        dict(d=2, boundary=False, numeric=False, reuse=False, lam=0.001, lump=False, rng=21, grids=[big], data=pts,
             bulk=40, snap_res=[4, 4], labels=[1, -1, 1, -1, -1, 1, 1]),
        dict(d=2, boundary=False, numeric=False, reuse=True, lam=0.1, lump=False, rng=22,
             grids=[[dict(lmin=2, splits=[0, 3]), dict(lmin=1, splits=[1, 2])], [dict(lmin=2, splits=[0, 3, 1]), dict(lmin=1, splits=[1])]],
             data=pts, bulk=10, snap_res=[4, 4], labels=None),
        dict(d=2, boundary=True, numeric=False, reuse=False, lam=0.001, lump=False, rng=23,
             grids=[[dict(lmin=1, splits=[1]), dict(lmin=2, splits=[0])]], data=inner, bulk=0, snap_res=[4, 4],
             labels=[1, -1, 1, 1, -1]),
        dict(d=2, boundary=True, numeric=False, reuse=False, lam=0.0, lump=True, rng=24,
             grids=[[dict(lmin=1, splits=[1]), dict(lmin=2, splits=[0])]], data=inner, bulk=0, snap_res=[4, 4], labels=None),
        dict(d=2, boundary=True, numeric=False, reuse=False, lam=0.001, lump=False, rng=26,
             grids=[[dict(lmin=3, splits=[0, 2, 5, 9, 11, 3, 7, 14]), dict(lmin=4, splits=[])]], data=pts, bulk=40,
             snap_res=[4, 4], labels=[1, -1, 1, -1, -1, 1, 1]),
        dict(d=2, boundary=True, numeric=False, reuse=False, lam=0.1, lump=True, rng=27,
             grids=[[dict(lmin=3, splits=[]), dict(lmin=5, splits=[])]], data=pts, bulk=40, snap_res=[3, 5], labels=None),
        dict(d=2, boundary=False, numeric=True, reuse=False, lam=0.1, lump=False, rng=25,
             grids=[[dict(lmin=1, splits=[1]), dict(lmin=1, splits=[0, 0])]], data=inner, bulk=0, snap_res=[4, 4],
             labels=None),
    ]


SUBS = [
    Sub("uniform", uniform_strategy, run_uniform, dict(quick=900, thorough=12000),
        budget_s=dict(quick=16, thorough=170), fixed_cases=uniform_fixed),
    Sub("dimwise", dimwise_strategy, run_dimwise, dict(quick=700, thorough=9000),
        budget_s=dict(quick=16, thorough=170), fixed_cases=dimwise_fixed),
    Sub("sasd", sasd_strategy, run_sasd, dict(quick=250, thorough=3000),
        budget_s=dict(quick=20, thorough=170), fixed_cases=sasd_fixed),
    Sub("hats", hats_strategy, run_hats, dict(quick=800, thorough=10000),
        budget_s=dict(quick=8, thorough=80)),
]
