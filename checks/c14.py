"""C14 — interrupted, saved or resumed refinement ends where an uninterrupted run ends."""
import os

import numpy as np
from hypothesis import strategies as st

from vlib.core import Outcome, Sub
from vlib import drive

PROPERTY = "C14"
RULE = ("case: strategy in {dimension-wise (versions 6/2/3/7/8, rebalancing, boundary), extend-split (versions 0-2), cell (lmin=lmax)}, d 2-3, a built-in "
        "(dill-picklable) integrand with drawn parameters and a drawn unit (values scaled by 1e-12 .. 1e8, also negative), the library's own error estimators (dimension-wise also a stateless scripted estimator that refines towards one target point: strongly one-sided trees, rebalancing rotations), final limit K2. The uninterrupted run "
        "(final limits: max_evaluations=K2 and either no tolerance or an error value observed in the tol=-1 history) is recorded; then EVERY evaluation index k of that run (all of them in the thorough tier and whenever "
        "the history has <= 8 evaluations, otherwise a drawn subset of 8) is used as interruption point: a fresh run with "
        "max_evaluations = n_k - 1 (or with the weaker tolerance err_k) stops there and is continued to K2 in a drawn mode: continue directly / save_to_file -> "
        "restore_from_file -> continue the restored object / save, then continue BOTH the original and the restored object; dimension-wise objects are in a share of the interruptions READ (interpolant, result, points and weights) between stop and continuation; optionally a continuation whose limits are already met is issued in between. Oracle: final "
        "refinement structure, scheme, lmax, combined result (1e-12 rel) and last point count equal the uninterrupted run's; a restored "
        "object answers __call__ and the point/weight getters bit-identically to the saved one. Non-trivial = an interruption at k>=1 "
        "followed by at least one further refinement. Distinct = distinct (case, interruption index).")
ASSUMPTIONS = [
    "library error estimators are deterministic, so the uninterrupted run is a valid reference",
    "files are written to the check's scratch directory and removed afterwards",
    "extend-split interpolation (__call__) needs boundary points, so extend-split cases use boundary=True",
]


def make_function(case):
    g = make_base_function(case)
    fs = case.get("fscale", 1.0)
    if fs == 1.0:
        return g
    from sparseSpACE import Function as F

    class Scaled(F.Function):
        """the integrand in other units (values of tiny / huge magnitude): every clause of the statement is scale free"""
        def __init__(self, inner, s):
            super().__init__()
            self.inner = inner
            self.s = float(s)

        def output_length(self):
            return self.inner.output_length()

        def eval(self, coordinates):
            return self.s * self.inner.eval(coordinates)

        def getAnalyticSolutionIntegral(self, start, end):
            return self.s * self.inner.getAnalyticSolutionIntegral(start, end)
    return Scaled(g, fs)


def make_base_function(case):
    from sparseSpACE import Function as F
    dim = case["dim"]
    rng = np.random.default_rng(case["fseed"])
    co = [float(x) for x in rng.uniform(0.5, 3.0, dim)]
    name = case["function"]
    if name == "cornerpeak":
        return F.GenzCornerPeak(co)
    if name == "productpeak":
        return F.GenzProductPeak(co, [float(x) for x in rng.uniform(0.2, 0.8, dim)])
    if name == "oszillatory":
        return F.GenzOszillatory(co, float(rng.uniform(0, 1)))
    if name == "gaussian":
        return F.GenzGaussian(co, [float(x) for x in rng.uniform(0.2, 0.8, dim)])
    if name == "c0":
        return F.GenzC0(co, [float(x) for x in rng.uniform(0.2, 0.8, dim)])
    if name == "discontinuous":
        # jump inside the box: one-sided, strongly local refinement (and rebalancing rotations)
        b = case["b"]
        return F.GenzDiscontinious(co, [float(b[d] * x) for d, x in enumerate(rng.uniform(0.15, 0.85, dim))])
    raise ValueError(name)


def make_target_err(fracs, bg):
    """stateless scripted estimator: an interval containing the target point gets error 1, all others a small value that
    depends on the interval only - the same object always gets the same error, also after a re-evaluation on resume"""
    from sparseSpACE.ErrorCalculator import ErrorCalculator

    class TargetErr(ErrorCalculator):
        def __init__(self):
            super().__init__(log_level=drive.Q, print_level=drive.Q)
            self.fracs = list(fracs)
            self.bg = float(bg)

        def calc_error(self, obj, norm, volume_weights=None):
            d = obj.this_dim
            x = obj.a + (obj.b - obj.a) * self.fracs[d]
            if obj.start <= x < obj.end:
                return 1.0
            return self.bg * (obj.end - obj.start) / (obj.b - obj.a)
    return TargetErr()


_CALLER_BOUNDS = {}     # id(solver) -> the caller's own bound arrays passed to the constructors


def build(case):
    from sparseSpACE.GridOperation import Integration
    dim = case["dim"]
    a, b = np.array(case["a"], dtype=float), np.array(case["b"], dtype=float)
    f = make_function(case)
    if case.get("nocache"):
        f.deactivate_caching()      # public option of every integrand: values are not kept (the point bookkeeping must survive a save / restore)
    ref = np.array([float(f.getAnalyticSolutionIntegral(a, b))])     # the true integral, so that errors are real errors
    if case["kind"] == "dw":
        from sparseSpACE.spatiallyAdaptiveSingleDimension2 import SpatiallyAdaptiveSingleDimensions2
        from sparseSpACE.Grid import GlobalTrapezoidalGrid
        from sparseSpACE.ErrorCalculator import ErrorCalculatorSingleDimVolumeGuided
        grid = GlobalTrapezoidalGrid(a, b, boundary=case["boundary"])
        if case.get("dwgrid", "trapezoidal") == "highorder":
            from sparseSpACE.Grid import GlobalHighOrderGrid
            grid = GlobalHighOrderGrid(a, b, boundary=True, max_degree=3)
        elif case.get("dwgrid") == "lagrange":
            from sparseSpACE.Grid import GlobalLagrangeGrid
            grid = GlobalLagrangeGrid(a, b, boundary=True, p=2)
        op = Integration(f, grid=grid, dim=dim, reference_solution=ref, print_level=drive.Q, log_level=drive.Q)
        sa = SpatiallyAdaptiveSingleDimensions2(a, b, operation=op, version=case["version"], rebalancing=case["rebalancing"],
                                                margin=case.get("margin", 0.9), rebalancing_safety_factor=case.get("safety", 0.1),
                                                print_level=drive.Q, log_level=drive.Q)
        err = ErrorCalculatorSingleDimVolumeGuided()
        if case.get("estimator") == "target":
            r = np.random.default_rng(case["fseed"] + 3)
            err = make_target_err([float(x) for x in r.uniform(0.03, 0.97, dim)], case.get("bg", 0.0))
    elif case["kind"] == "cell":
        from sparseSpACE.spatiallyAdaptiveCell import SpatiallyAdaptiveCellScheme
        from sparseSpACE.Grid import TrapezoidalGrid
        from sparseSpACE.ErrorCalculator import ErrorCalculatorSurplusCell
        grid = TrapezoidalGrid(a, b, boundary=True)
        op = Integration(f, grid=grid, dim=dim, reference_solution=ref, print_level=drive.Q, log_level=drive.Q)
        sa = SpatiallyAdaptiveCellScheme(a, b, operation=op)
        sa.log_util.set_print_level(drive.Q)
        sa.log_util.set_log_level(drive.Q)
        err = ErrorCalculatorSurplusCell()
    else:
        from sparseSpACE.spatiallyAdaptiveExtendSplit import SpatiallyAdaptiveExtendScheme
        from sparseSpACE.Grid import TrapezoidalGrid
        from sparseSpACE.ErrorCalculator import ErrorCalculatorExtendSplit
        grid = TrapezoidalGrid(a, b, boundary=True)
        op = Integration(f, grid=grid, dim=dim, reference_solution=ref, print_level=drive.Q, log_level=drive.Q)
        sa = SpatiallyAdaptiveExtendScheme(a, b, number_of_refinements_before_extend=case["nref"], version=case["version"], operation=op,
                                           automatic_extend_split=bool(case.get("auto", False)))
        if case.get("reuse_bounds"):
            # the strategy object gets its own arrays (the grid keeps the first pair): the caller may re-use THESE afterwards
            a2, b2 = np.array(a), np.array(b)
            sa = SpatiallyAdaptiveExtendScheme(a2, b2, number_of_refinements_before_extend=case["nref"], version=case["version"],
                                               operation=op, automatic_extend_split=bool(case.get("auto", False)))
            _CALLER_BOUNDS.clear()
            _CALLER_BOUNDS[id(sa)] = (a2, b2)
        sa.log_util.set_print_level(drive.Q)
        sa.log_util.set_log_level(drive.Q)
        err = ErrorCalculatorExtendSplit()
    return sa, op, err


def snapshot(sa, kind):
    if kind == "dw":
        ref = [[(float(o.start), float(o.end), tuple(int(x) for x in o.levels), int(o.coarsening_level)) for o in drive.dw_objects(sa, d)]
               for d in range(sa.dim)]
    elif kind == "cell":
        ref = sorted((tuple(float(x) for x in o.start), tuple(float(x) for x in o.end), bool(o.active))
                     for o in sa.refinement.get_objects())
    else:
        ref = sorted((tuple(float(x) for x in o.start), tuple(float(x) for x in o.end), int(o.coarseningValue), int(o.needExtendScheme))
                     for o in sa.refinement.get_objects())
    sch = sorted((tuple(int(x) for x in c.levelvector), float(c.coefficient)) for c in sa.scheme)
    return ref, sch, tuple(int(x) for x in sa.lmax)


def first_run(case, maxev, tol=None):
    # "no tolerance" is written as -1 or as 0 (errors are non-negative, so both mean: stop on the point budget only)
    if tol is None:
        tol = case.get("notol", -1)
    sa, op, err = build(case)
    with drive.quiet():
        r = sa.performSpatiallyAdaptiv(case["lmin"], case["lmax"], err, tol=tol, max_evaluations=maxev, print_output=False)
    return sa, r


def cont(sa, maxev, tol=-1):
    # (callers pass the case's own "no tolerance" value)
    with drive.quiet():
        return sa.continue_adaptive_refinement(tol=tol, max_evaluations=maxev)


def observable(sa, pts):
    """what a user can ask a (restored) instance without evaluating further"""
    with drive.quiet():
        vals = np.asarray(sa(pts)) if not type(sa).__name__.startswith("SpatiallyAdaptiveCell") else np.zeros(1)   # the cell scheme has no interpolation
        res = np.asarray(sa.operation.get_result(), dtype=float)
        n = sa.get_total_num_points()
        pw = None
        if hasattr(sa, "get_points_and_weights"):
            try:
                P, W = sa.get_points_and_weights()
                pw = (np.asarray(P, dtype=float), np.asarray(W, dtype=float))
            except AssertionError:
                pw = None
    return vals, res, n, pw


def run(case):
    from sparseSpACE.StandardCombi import StandardCombi
    out = Outcome()
    kind = case["kind"]
    sub = kind
    K2 = case["maxev"]
    full_sa, full = first_run(case, K2)
    tol_final = case.get("notol", -1)
    tsel = case.get("tol_sel", [0, 0])
    if tsel[0]:
        # final limits with an effective tolerance: an error value observed in the tol=-1 history (so the uninterrupted run
        # with the final limits stops by the tolerance clause somewhere inside that history)
        E_probe = [float(x) for x in full[5]]
        tol_final = E_probe[tsel[1] % len(E_probe)] * (1 + 1e-9)
        full_sa, full = first_run(case, K2, tol=tol_final)
    N = [int(x) for x in full[6]]
    E_full = [float(x) for x in full[5]]
    full_snap = snapshot(full_sa, kind)
    full_res = np.asarray(full[3], dtype=float)
    nt = 0
    ks = list(range(len(N) - 1))
    if len(ks) > 8 and not case["all_points"]:
        rng = np.random.default_rng(case["fseed"] + 5)
        ks = sorted(rng.choice(ks, size=8, replace=False).tolist())
    rngp = np.random.default_rng(case["fseed"] + 9)
    a, b = np.array(case["a"]), np.array(case["b"])
    pts = [tuple(float(a[d] + (b[d] - a[d]) * rngp.random()) for d in range(case["dim"])) for _ in range(7)]
    fname = os.path.join(os.getcwd(), "c14_%d.pkl" % os.getpid())
    modes = case["modes"]
    for j, k in enumerate(ks):
        K1 = N[k] - 1
        mode = modes[j % len(modes)]
        leg = case.get("legs", ["max"])[j % len(case.get("legs", ["max"]))]
        if leg == "tol" and E_full[k] > max(tol_final, 0) and E_full[k] > 0:
            # first leg limited by a weaker tolerance instead of a smaller point limit
            sa2, r1 = first_run(case, K2, tol=E_full[k] * (1 + 1e-9))
            K1 = "tol=%.3g" % (E_full[k] * (1 + 1e-9))
        else:
            leg = "max"
            sa2, r1 = first_run(case, K1)
        if kind == "es" and case.get("reuse_bounds") and id(sa2) in _CALLER_BOUNDS:
            # after the stop the caller re-uses its own bound arrays for its next problem
            ca, cb = _CALLER_BOUNDS[id(sa2)]
            ca[:] = -1.0
            cb[:] = 3.0
            out.cls("caller-reused-its-bound-arrays-after-the-stop")
        n_at_stop = int(r1[6][-1])
        extra = None
        if kind == "es":
            vals = [np.asarray(o.value, dtype=float) for o in sa2.refinement.get_new_objects()]
            extra = np.sum(vals, axis=0) if vals else np.zeros_like(full_res)
        if any(e == 0 for e in E_full):
            out.cls("an-error-estimate-is-exactly-zero")
        tag = "interrupted at evaluation %d of %d (first leg %s, final limits tol=%.3g max_evaluations=%d), mode %s" % (
            len(r1[6]) - 1, len(N) - 1, K1 if leg == "tol" else "max_evaluations=%s" % K1, tol_final, K2, mode)
        targets = []
        if mode == "direct":
            targets = [("original", sa2)]
        else:
            try:
                sa2.save_to_file(fname)
                restored = StandardCombi.restore_from_file(fname)
                observer = StandardCombi.restore_from_file(fname)
            finally:
                if os.path.exists(fname):
                    os.remove(fname)
            if snapshot(restored, kind) != snapshot(sa2, kind):
                out.bad(sub + "/restored-instance-differs/structure", tag)
            if mode == "saved":
                # __call__ may evaluate the integrand at further points and so changes the evaluation counter of the object
                # it is called on; therefore a second restored copy and the (afterwards discarded) original are observed,
                # and the objects that are continued are left untouched
                o1 = observable(sa2, pts)
                o2 = observable(observer, pts)
                if not (np.array_equal(o1[0], o2[0]) and np.array_equal(o1[1], o2[1]) and o1[2] == o2[2]):
                    out.bad(sub + "/restored-instance-differs", "%s: __call__/result/point count of the restored object differ from the saved one" % tag)
                if o1[3] is not None and o2[3] is not None and not (np.array_equal(o1[3][0], o2[3][0]) and np.array_equal(o1[3][1], o2[3][1])):
                    out.bad(sub + "/restored-instance-differs/points-and-weights", tag)
            targets = [("restored", restored)] + ([("original", sa2)] if mode == "both" else [])
        for name, obj in targets:
            if case.get("noop", [False])[j % len(case.get("noop", [False]))]:
                # an intermediate continuation whose limits are already met (a user asking again with the same / a slightly
                # larger point limit): it must return without refining, and the final continuation must still end where the
                # uninterrupted run ends
                before_noop = snapshot(obj, kind)
                rn = cont(obj, n_at_stop - 1, case.get("notol", -1))
                if snapshot(obj, kind) != before_noop or int(rn[6][-1]) != n_at_stop:
                    out.bad(sub + "/continuation-with-met-limits-refined", "%s: %d -> %d points" % (tag, n_at_stop, int(rn[6][-1])))
                out.cls("no-op-continuation-in-between")
            if kind == "dw" and case.get("read", [False])[j % len(case.get("read", [False]))]:
                # between the stop and the continuation the user READS the stopped object (interpolant at some points, result,
                # point count, points and weights); for the dimension-wise strategy that leaves the object unchanged on the
                # unchanged tree (extend-split interpolation evaluates the integrand at further points, see DESIGN 6.3)
                observable(obj, pts)
                out.cls("object-read-between-stop-and-continuation")
            r2 = cont(obj, K2, tol_final)
            snap2 = snapshot(obj, kind)
            res2 = np.asarray(r2[3], dtype=float)
            same_struct = snap2 == full_snap
            same_res = np.allclose(res2, full_res, rtol=1e-12, atol=1e-14 * abs(case.get("fscale", 1.0)))
            same_n = int(r2[6][-1]) == N[-1]
            t2 = "%s, continued %s object" % (tag, name)
            if not same_struct:
                what = "refinement" if snap2[0] != full_snap[0] else ("scheme" if snap2[1] != full_snap[1] else "lmax")
                out.bad(sub + "/final-structure-differs/" + what, t2)
            if not same_n:
                out.bad(sub + "/final-point-count-differs", "%s: %d vs %d" % (t2, int(r2[6][-1]), N[-1]))
            if not same_res:
                if kind == "es" and same_struct and extra is not None and np.allclose(res2 - full_res, extra, rtol=1e-9, atol=1e-13 * abs(case.get("fscale", 1.0))) and np.any(extra != 0):
                    out.bad(sub + "/final-result-differs/newest-areas-at-interruption-counted-twice",
                            "%s: result %s vs uninterrupted %s; difference equals the sum of the values of the %d areas that were new at the interruption (%s)" % (
                                t2, res2, full_res, len(sa2.refinement.get_new_objects()) if name == "original" else -1, extra))
                else:
                    out.bad(sub + "/final-result-differs", "%s: %s vs uninterrupted %s" % (t2, res2, full_res))
            if len(r1[6]) - 1 >= 1 and len(r2[6]) > len(r1[6]):
                nt += 1
            out.cls("mode=" + mode, "leg=" + leg, "final-tol=%s" % (("none(%r)" % case.get("notol", -1)) if tol_final in (-1, 0) else "observed-error"))
    out.nontrivial = nt >= 1
    out.cls("integrand-scale=%g" % case.get("fscale", 1.0), "integrand-cache=%s" % ("off" if case.get("nocache") else "on"))
    if kind == "es":
        out.cls("automatic_extend_split=%s" % bool(case.get("auto", False)))
    if kind == "dw":
        out.cls("dwgrid=" + case.get("dwgrid", "trapezoidal"))
    out.cls("kind=" + kind, "version=%d" % case["version"], "function=" + case["function"], "estimator=" + case.get("estimator", "library"))
    out.info = dict(max_history_len=len(N), max_interruptions=len(ks), max_points=N[-1])
    return out


def _strategy(kind):
    def strat(tier):
        @st.composite
        def s(draw):
            dim = draw(st.integers(2, 3))
            a = [0.0] * dim
            b = [draw(st.sampled_from([1.0, 1.0, 0.5])) for _ in range(dim)]
            c = dict(kind=kind, dim=dim, a=a, b=b, fseed=draw(st.integers(0, 10 ** 6)),
                     function=draw(st.sampled_from(["cornerpeak", "productpeak", "oszillatory", "gaussian", "c0", "discontinuous", "discontinuous"])),
                     modes=draw(st.lists(st.sampled_from(["direct", "saved", "both"]), min_size=1, max_size=4)),
                     all_points=(tier == "thorough"),
                     tol_sel=[draw(st.sampled_from([0, 1, 1])), draw(st.integers(0, 40))],
                     legs=draw(st.lists(st.sampled_from(["max", "max", "tol"]), min_size=1, max_size=3)),
                     noop=draw(st.lists(st.booleans(), min_size=1, max_size=3)),
                     fscale=draw(st.sampled_from([1.0, 1.0, 1.0, 1e-12, 1e-10, 1e-6, 1e3, 1e8, -1e-11])),
                     notol=draw(st.sampled_from([-1, 0, 0.0])),
                     read=draw(st.lists(st.booleans(), min_size=1, max_size=4)),
                     nocache=draw(st.sampled_from([False, False, True])))
            if kind == "dw":
                c.update(lmin=1, lmax=2, version=draw(st.sampled_from([6, 6, 2, 3, 7, 8])), rebalancing=draw(st.booleans()),
                         boundary=draw(st.booleans()), maxev=draw(st.integers(30, 250 if dim == 2 else 200)),
                         estimator=draw(st.sampled_from(["library", "library", "target"])), bg=draw(st.sampled_from([0.0, 0.5, 1.5])),
                         margin=draw(st.sampled_from([0.9, 0.9, 0.5, 1.0, 0.0])), safety=draw(st.sampled_from([0.1, 0.1, 0.0, 0.0, 0.3])))
                if c["estimator"] == "target":
                    c["maxev"] = draw(st.integers(30, 120))     # one interval per step: keep the history short
                # the quadrature grid of the operation differs from the strategy's internal trapezoidal surplus grid
                c["dwgrid"] = draw(st.sampled_from(["trapezoidal", "trapezoidal", "trapezoidal", "highorder", "lagrange"]))
                if c["dwgrid"] != "trapezoidal":
                    c["boundary"] = True
                    c["maxev"] = min(c["maxev"], 120)
            elif kind == "cell":
                c.update(lmin=draw(st.integers(1, 2)), version=0, maxev=draw(st.integers(30, 300)))
                c["lmax"] = c["lmin"]
            else:
                c.update(lmin=1, lmax=2, version=draw(st.sampled_from([0, 0, 1, 2])), nref=draw(st.integers(0, 2)),
                         maxev=draw(st.integers(60, 900)), auto=draw(st.booleans()), reuse_bounds=draw(st.booleans()))
            return c
        return s()
    return strat


def selftest():
    case = dict(kind="dw", dim=2, a=[0.0, 0.0], b=[1.0, 1.0], fseed=1, function="cornerpeak", modes=["saved"], all_points=True,
                lmin=1, lmax=2, version=6, rebalancing=False, boundary=True, maxev=40)
    sa, r = first_run(case, 40)
    s1 = snapshot(sa, "dw")
    sa_b, r_b = first_run(case, 25)
    assert snapshot(sa_b, "dw") != s1 or list(r_b[6]) == list(r[6]), "snapshot does not distinguish different refinements"


SUBS = [
    Sub("dw", _strategy("dw"), run, dict(quick=64, thorough=1200), budget_s=dict(quick=50, thorough=600), case_timeout=300),
    Sub("es", _strategy("es"), run, dict(quick=48, thorough=1000), budget_s=dict(quick=50, thorough=600), case_timeout=300),
    Sub("cell", _strategy("cell"), run, dict(quick=32, thorough=800), budget_s=dict(quick=25, thorough=400), case_timeout=300),
]
