"""C13 — the adaptive driver honours its stopping rules and reports truthful numbers."""
import itertools

import numpy as np
from hypothesis import strategies as st

from vlib.core import Outcome, Sub, HarnessError
from vlib import drive

PROPERTY = "C13"
RULE = ("case: strategy in {dimension-wise, extend-split, cell}, d 2-3, scalar or 2-component integrand with a given reference "
        "solution (close to the true integral, far from it, or all zero; integrand magnitude 1, 1e-4, 1e-10 or 1e6), norm in {inf, 2, 1}, the library's own error estimators. "
        "One reference history (tol=-1, large point limit) records after every evaluation the error, point count, surplus error, "
        "result and refinement structure; then up to 3 limit triples (tol, min_evaluations, max_evaluations) are drawn FROM the "
        "observed history (values equal to / just above / just below observed errors and point counts, limits already met at "
        "evaluation 0, max=None). Model: k* = first k with (err_k<=tol and n_k>=min) or (max given and n_k>max). The limited run must "
        "return exactly the reference prefix 0..k* of all history arrays, must have called refine() exactly k* times and must end in the "
        "reference structure after k* steps. Every second limited run re-uses the solver/operation/integrand objects of the previous run. Non-trivial = a triple with 0 < k* < last index. Distinct = distinct case dict.")
ASSUMPTIONS = [
    "the error definition includes the library's documented n^(1/p) normalisation (identical to the plain norm for scalar output and p=inf)",
    "reference vectors with some but not all zero components are not generated (division by zero is outside the statement)",
    "distinct integrand evaluations are counted by the harness as distinct coordinate tuples passed to the integrand since operation.initialize()",
    "prefix comparison: point counts exact, errors 1e-12 relative",
    "continuations (continue_adaptive_refinement with other limits, most cases) are judged by the statement's clauses on the continuation's own part of the history arrays",
    "max_time (a quarter of the cases): the clock is owned by the harness (drive.FakeClock, tick tape from the case); asserted is only that a time-limited run ends in the state of one of its evaluations (arrays, no refinement after the last evaluation, reported result, prefix of the unlimited history), not at which reading the driver notices the budget",
]


def _norm(v, p):
    v = np.abs(np.asarray(v, dtype=float))
    if p == "inf":
        return float(np.max(v))
    return float(np.sum(v ** p) ** (1.0 / p))


def expected_error(result, ref, p):
    result = np.asarray(result, dtype=float)
    ref = np.asarray(ref, dtype=float)
    n = len(result)
    scale = 1.0 if p == "inf" else n ** (1.0 / p)
    if np.all(ref == 0):
        return _norm(result, p) / scale
    return _norm((ref - result) / ref, p) / scale


def build(case, seen):
    """fresh strategy object with a counting integrand"""
    from sparseSpACE.Function import FunctionCustom
    from sparseSpACE.GridOperation import Integration
    dim = case["dim"]
    a, b = np.array(case["a"], dtype=float), np.array(case["b"], dtype=float)
    gs = [drive.case_function(case, offset=7 * i) for i in range(case["nout"])]

    # the driver option evaluation_points: the interpolant is evaluated there after every evaluation and compared with the
    # model itself (operation.eval_analytic -> f.eval); these model evaluations are not part of the grid
    skip = set(tuple(float(t) for t in q) for q in case.get("evalpts") or [])

    def fun(x):
        key = tuple(float(t) for t in x)
        if key not in skip:
            seen.add(key)
        return [float(g(x)) * fscale for g in gs]
    fscale = float(case.get("fscale", 1.0))
    f = FunctionCustom(fun, output_dim=case["nout"])
    if case.get("nocache"):
        f.deactivate_caching()      # public option: values are not kept, the point bookkeeping must not depend on it
    norm = np.inf if case["norm"] == "inf" else case["norm"]
    ref = np.array(case["reference"], dtype=float)
    kind = case["kind"]
    if kind == "dw":
        from sparseSpACE.spatiallyAdaptiveSingleDimension2 import SpatiallyAdaptiveSingleDimensions2
        from sparseSpACE.Grid import GlobalTrapezoidalGrid
        from sparseSpACE.ErrorCalculator import ErrorCalculatorSingleDimVolumeGuided
        grid = GlobalTrapezoidalGrid(a, b, boundary=case["boundary"])
        op = Integration(f, grid=grid, dim=dim, reference_solution=ref, print_level=drive.Q, log_level=drive.Q)
        sa = SpatiallyAdaptiveSingleDimensions2(a, b, operation=op, norm=norm, version=case["version"], rebalancing=case["rebalancing"],
                                                print_level=drive.Q, log_level=drive.Q)
        err = ErrorCalculatorSingleDimVolumeGuided()
    else:
        from sparseSpACE.Grid import TrapezoidalGrid
        grid = TrapezoidalGrid(a, b, boundary=case["boundary"] if kind == "es" else True)
        op = Integration(f, grid=grid, dim=dim, reference_solution=ref, print_level=drive.Q, log_level=drive.Q)
        if kind == "es":
            from sparseSpACE.spatiallyAdaptiveExtendSplit import SpatiallyAdaptiveExtendScheme
            from sparseSpACE.ErrorCalculator import ErrorCalculatorExtendSplit
            sa = SpatiallyAdaptiveExtendScheme(a, b, number_of_refinements_before_extend=case["nref"], version=case["version"],
                                               operation=op, norm=norm)
            err = ErrorCalculatorExtendSplit()
        else:
            from sparseSpACE.spatiallyAdaptiveCell import SpatiallyAdaptiveCellScheme
            from sparseSpACE.ErrorCalculator import ErrorCalculatorSurplusCell
            sa = SpatiallyAdaptiveCellScheme(a, b, operation=op, norm=norm)
            err = ErrorCalculatorSurplusCell()
        sa.log_util.set_print_level(drive.Q)
        sa.log_util.set_log_level(drive.Q)
    return sa, op, err


def snapshot(sa, kind):
    if kind == "dw":
        return [[(float(o.start), float(o.end), tuple(int(x) for x in o.levels)) for o in drive.dw_objects(sa, d)] for d in range(sa.dim)]
    objs = sa.refinement.get_objects()
    return sorted((tuple(float(x) for x in o.start), tuple(float(x) for x in o.end), int(getattr(o, "coarseningValue", 0))) for o in objs)


def all_objects(sa, kind):
    if kind == "dw":
        return [o for d in range(sa.dim) for o in drive.dw_objects(sa, d)]
    return list(sa.refinement.get_objects())


def run_limited(sa, op, err, case, tol, min_ev, max_ev, maxsteps, hooks=None, clock=None):
    """performSpatiallyAdaptiv with the given limits; counts refine() calls; returns (result tuple or None, refines)"""
    state = dict(refines=0, evals=0)
    orig_refine, orig_eval = sa.refine, sa.evaluate_operation

    def rf():
        if state["refines"] >= maxsteps:
            raise drive.StopHistory()
        orig_refine()
        state["refines"] += 1

    def ev():
        r = orig_eval()
        if hooks:
            hooks(state["evals"])
        state["evals"] += 1
        return r
    sa.refine, sa.evaluate_operation = rf, ev
    res = None
    lmin = case["lmin"]
    lmax = case["lmax"] if case["kind"] != "cell" else case["lmin"]
    try:
        with drive.quiet(), drive.harness_clock(clock):
            extra = dict(evaluation_points=[tuple(q) for q in case["evalpts"]]) if case.get("evalpts") and case["kind"] == "dw" else {}
            if clock:
                extra["max_time"] = float(clock["max_time"])
            res = sa.performSpatiallyAdaptiv(lmin, lmax, err, tol=tol, max_evaluations=max_ev, min_evaluations=min_ev,
                                             print_output=False, **extra)
    except drive.StopHistory:
        pass
    finally:
        sa.refine, sa.evaluate_operation = orig_refine, orig_eval
    return res, state["refines"]


def run_continued(sa, tol, min_ev, max_ev, maxsteps, hooks=None):
    """continue_adaptive_refinement with the given limits on an object whose run has ended; counts refine() calls"""
    state = dict(refines=0, evals=0)
    orig_refine, orig_eval = sa.refine, sa.evaluate_operation

    def rf():
        if state["refines"] >= maxsteps:
            raise drive.StopHistory()
        orig_refine()
        state["refines"] += 1

    def ev():
        r = orig_eval()
        if hooks:
            hooks(state["evals"])
        state["evals"] += 1
        return r
    sa.refine, sa.evaluate_operation = rf, ev
    res = None
    try:
        with drive.quiet():
            res = sa.continue_adaptive_refinement(tol=tol, max_evaluations=max_ev, min_evaluations=min_ev)
    except drive.StopHistory:
        pass
    finally:
        sa.refine, sa.evaluate_operation = orig_refine, orig_eval
    return res, state["refines"], state["evals"]


def run(case):
    out = Outcome()
    kind = case["kind"]
    sub = kind
    p = case["norm"]
    ref = np.array(case["reference"], dtype=float)
    seen = set()
    sa, op, err = build(case, seen)
    rec = dict(results=[], counts=[], snaps=[])

    def hook(k):
        rec["results"].append(np.array(op.get_result(), dtype=float).copy())
        rec["counts"].append(len(seen))
        rec["snaps"].append(snapshot(sa, kind))
        for o in all_objects(sa, kind):
            ben = getattr(o, "benefit", None)
            if ben is not None and np.any(np.asarray(ben) < 0):
                out.bad(sub + "/negative-benefit", "evaluation %d: %r" % (k, ben))
                break

    res, nref = run_limited(sa, op, err, case, -1, 1, case["maxev"], 40, hooks=hook)
    E = [float(x) for x in sa.error_array]
    N = [int(x) for x in sa.num_point_array]
    S = [float(x) for x in sa.surplus_error_array]
    K = len(rec["results"])
    if res is None:
        # ended by the harness's step cap during a refine(): the last evaluation has been recorded by the driver
        K = min(K, len(E))
    if not (len(E) == len(N) == len(S)) or len(E) not in (K, K):
        out.bad(sub + "/history-arrays-length", "evaluations %d, arrays %d/%d/%d" % (K, len(E), len(N), len(S)))
        return out
    if any(N[i] > N[i + 1] for i in range(len(N) - 1)):
        out.bad(sub + "/point-count-decreases", str(N))
    if any(x < 0 for x in E) or any(x < 0 for x in S):
        out.bad(sub + "/negative-error-estimate", "E=%s S=%s" % (E[:5], S[:5]))
    # relative deviations are O(1) quantities (rounding ~1e-16 absolute); with an all-zero reference the error is the norm
    # of the result itself, whose magnitude follows the units of integrand and box
    _base = 1.0 if np.any(np.asarray(ref, dtype=float) != 0) else 0.0
    for k in range(len(E)):
        want = expected_error(rec["results"][k], ref, p)
        if not abs(E[k] - want) <= 1e-12 * (_base + abs(want)):
            out.bad(sub + "/reported-error-not-deviation-from-reference", "evaluation %d: reported %.17g, recomputed %.17g (norm %s, reference %s, result %s)" % (
                k, E[k], want, p, ref, rec["results"][k]))
            break
    for k in range(len(N)):
        if N[k] != rec["counts"][k]:
            out.bad(sub + "/point-count-not-distinct-evaluations", "evaluation %d: reported %d, distinct integrand evaluations %d" % (k, N[k], rec["counts"][k]))
            break
    if res is not None:
        if not np.allclose(np.asarray(res[3], dtype=float), rec["results"][-1], rtol=1e-13, atol=0):
            out.bad(sub + "/returned-result-differs-from-last-evaluation", "%s vs %s" % (res[3], rec["results"][-1]))
        if list(res[5]) != list(sa.error_array) or list(res[6]) != list(sa.num_point_array):
            out.bad(sub + "/returned-arrays-differ", "")
        if N and not N[-1] > case["maxev"]:
            out.bad(sub + "/stopped-without-exceeding-max-evaluations", "N=%s max=%s" % (N[-3:], case["maxev"]))
        if any(n > case["maxev"] for n in N[:-1]):
            out.bad(sub + "/continued-after-max-evaluations-exceeded", "N=%s max=%s" % (N, case["maxev"]))
    # --- limited runs -------------------------------------------------------------------------------------
    nt = False
    last = len(E) - 1
    prev_objects = (sa, op, err, seen) if res is not None else None
    for tr_index, tr in enumerate(case["triples"]):
        i_t, m_t, i_n, m_n, i_x, m_x = tr
        tol = [-1.0, E[i_t % len(E)], E[i_t % len(E)] * (1 + 1e-9), E[i_t % len(E)] * (1 - 1e-9)][m_t]
        min_ev = max(1, [1, N[i_n % len(N)], N[i_n % len(N)] + 1, N[i_n % len(N)] - 1][m_n])
        max_ev = [None, N[i_x % len(N)], N[i_x % len(N)] - 1, N[i_x % len(N)] + 1, 0][m_x]
        kstar = None
        why = None
        for k in range(len(E)):
            if E[k] <= tol and N[k] >= min_ev:
                kstar, why = k, "tolerance"
                break
            if max_ev is not None and N[k] > max_ev:
                kstar, why = k, "max-evaluations"
                break
        if kstar is None:
            out.cls("triple-without-stop-in-window")
            continue
        if kstar == last and res is None:
            continue
        if tr_index % 2 == 1 and prev_objects is not None and kind != "cell":
            # Every second limited run re-uses the solver, operation and integrand objects of the previous run. The
            # statement does not promise that such a run equals a run on fresh objects (it does not on the unchanged tree:
            # e.g. the cell scheme keeps its cell dictionary), so the re-used run is judged by the clauses of the statement
            # on ITS OWN history only: one array entry per evaluation, stop at the first evaluation that meets the rule and
            # no refinement afterwards, non-decreasing counts, non-negative errors, truthful error.
            sa3, op3, err3, seen3 = prev_objects
            results3 = []
            res3, nref3 = run_limited(sa3, op3, err3, case, tol, min_ev, max_ev, 45,
                                      hooks=lambda k: results3.append(np.array(op3.get_result(), dtype=float).copy()))
            out.cls("second-run-on-the-same-object")
            tag3 = "second run on the same solver object, limits tol=%r min=%r max=%r" % (tol, min_ev, max_ev)
            if res3 is not None:
                E3, N3, S3 = [float(x) for x in res3[5]], [int(x) for x in res3[6]], [float(x) for x in res3[7]]
                nev = len(results3)
                if not (len(E3) == len(N3) == len(S3) == nev):
                    out.bad(sub + "/reused-object/history-arrays-length", "%s: %d evaluations, arrays %d/%d/%d" % (tag3, nev, len(E3), len(N3), len(S3)))
                else:
                    if nref3 != nev - 1:
                        out.bad(sub + "/reused-object/refinements-vs-evaluations", "%s: %d refinements, %d evaluations" % (tag3, nref3, nev))
                    if any(N3[i] > N3[i + 1] for i in range(len(N3) - 1)):
                        out.bad(sub + "/reused-object/point-count-decreases", "%s: %s" % (tag3, N3))
                    if any(x < 0 for x in E3) or any(x < 0 for x in S3):
                        out.bad(sub + "/reused-object/negative-error-estimate", tag3)

                    def _stop(k):
                        return (E3[k] <= tol and N3[k] >= min_ev) or (max_ev is not None and N3[k] > max_ev)
                    early = [k for k in range(nev - 1) if _stop(k)]
                    if early:
                        out.bad(sub + "/reused-object/stop-rule/refined-after-stop-condition", "%s: rule met at evaluation %d of %d (E=%s N=%s)" % (
                            tag3, early[0], nev - 1, E3[:early[0] + 1], N3[:early[0] + 1]))
                    if not _stop(nev - 1):
                        out.bad(sub + "/reused-object/stop-rule/stopped-too-early", "%s: E=%s N=%s" % (tag3, E3[-2:], N3[-2:]))
                    want = expected_error(results3[-1], ref, p)
                    if not abs(E3[-1] - want) <= 1e-12 * (_base + abs(want)):
                        out.bad(sub + "/reused-object/reported-error-not-deviation-from-reference", "%s: %.17g vs %.17g" % (tag3, E3[-1], want))
            prev_objects = None
            continue
        seen2 = set()
        sa2, op2, err2 = build(case, seen2)
        prev_objects = (sa2, op2, err2, seen2)
        res2, nref2 = run_limited(sa2, op2, err2, case, tol, min_ev, max_ev, kstar + 3)
        tag = "limits tol=%r min=%r max=%r: model stop at evaluation %d by %s (reference E=%s N=%s)" % (
            tol, min_ev, max_ev, kstar, why, [float("%.6g" % e) for e in E[:kstar + 2]], N[:kstar + 2])
        if res2 is None or nref2 != kstar:
            out.bad(sub + "/stop-rule/%s" % ("refined-after-stop-condition" if (res2 is None or nref2 > kstar) else "stopped-too-early"),
                    "%s; run made %d refinement steps%s" % (tag, nref2, "" if res2 is not None else " and was still refining"))
            continue
        E2, N2, S2 = [float(x) for x in res2[5]], [int(x) for x in res2[6]], [float(x) for x in res2[7]]
        if not (len(E2) == len(N2) == len(S2) == kstar + 1):
            out.bad(sub + "/history-arrays-length", "%s; lengths %d %d %d" % (tag, len(E2), len(N2), len(S2)))
            continue
        if N2 != N[:kstar + 1]:
            out.bad(sub + "/limited-run-not-prefix/point-counts", "%s; got %s" % (tag, N2))
        if not np.allclose(E2, E[:kstar + 1], rtol=1e-12, atol=1e-300) or not np.allclose(S2, S[:kstar + 1], rtol=1e-12, atol=1e-300):
            out.bad(sub + "/limited-run-not-prefix/errors", "%s; got %s" % (tag, E2))
        if snapshot(sa2, kind) != rec["snaps"][kstar]:
            out.bad(sub + "/limited-run-not-prefix/refinement-structure", tag)
        if not np.allclose(np.asarray(res2[3], dtype=float), rec["results"][kstar], rtol=1e-12, atol=1e-300):
            out.bad(sub + "/limited-run-not-prefix/result", "%s; %s vs %s" % (tag, res2[3], rec["results"][kstar]))
        if N2[-1] != len(seen2):
            out.bad(sub + "/point-count-not-distinct-evaluations", "%s: reported %d, distinct integrand evaluations %d" % (tag, N2[-1], len(seen2)))
        out.cls("stop-by-" + why)
        if case.get("cont") and not out.violations and kstar < last:
            # the stopped run is CONTINUED with other limits (continue_adaptive_refinement): the stopping rule of the statement
            # applies to the continuation with ITS OWN limits - it re-evaluates, stops at the first evaluation that meets them and
            # does not refine afterwards; judged on the continuation's own part of the history arrays
            i2 = min(kstar + 1 + i_t % 3, last)
            cm = case["cont"] % 3
            if cm == 0:
                tol_c, min_c, max_c = E[i2] * (1 + 1e-9), 1, None             # tighter (or equal) tolerance taken from the reference history
            elif cm == 1:
                tol_c, min_c, max_c = -1.0, 1, N[i2] - 1                        # larger point limit, no tolerance
            else:
                tol_c, min_c, max_c = max(E[kstar], tol) * 2 + 1e-300, 1, None  # looser tolerance: already met, must not refine
            results_c = []
            res_c, nref_c, nev_c = run_continued(sa2, tol_c, min_c, max_c, 12,
                                                 hooks=lambda k: results_c.append(np.array(op2.get_result(), dtype=float).copy()))
            tag_c = "%s; then continued with tol=%r min=%r max=%r" % (tag, tol_c, min_c, max_c)
            if res_c is not None:
                Ec, Nc, Sc = [float(x) for x in res_c[5]], [int(x) for x in res_c[6]], [float(x) for x in res_c[7]]
                j0 = kstar + 1
                if not (len(Ec) == len(Nc) == len(Sc) == j0 + nev_c):
                    out.bad(sub + "/continued/history-arrays-length", "%s: %d + %d evaluations, arrays %d/%d/%d" % (tag_c, j0, nev_c, len(Ec), len(Nc), len(Sc)))
                else:
                    def _stop_c(j):
                        return (Ec[j] <= tol_c and Nc[j] >= min_c) or (max_c is not None and Nc[j] > max_c)
                    if nref_c != nev_c - 1:
                        out.bad(sub + "/continued/refinements-vs-evaluations", "%s: %d refinements, %d evaluations" % (tag_c, nref_c, nev_c))
                    early = [j for j in range(j0, len(Ec) - 1) if _stop_c(j)]
                    if early:
                        out.bad(sub + "/continued/stop-rule/refined-after-stop-condition", "%s: rule met at continuation evaluation %d of %d (E=%s N=%s)" % (
                            tag_c, early[0] - j0, nev_c - 1, Ec[j0:early[0] + 1], Nc[j0:early[0] + 1]))
                    if not _stop_c(len(Ec) - 1):
                        out.bad(sub + "/continued/stop-rule/stopped-too-early", "%s: E=%s N=%s" % (tag_c, Ec[j0:], Nc[j0:]))
                    if any(Nc[i] > Nc[i + 1] for i in range(len(Nc) - 1)):
                        out.bad(sub + "/continued/point-count-decreases", "%s: %s" % (tag_c, Nc))
                    want = expected_error(results_c[-1], ref, p)
                    if not abs(Ec[-1] - want) <= 1e-12 * (_base + abs(want)):
                        out.bad(sub + "/continued/reported-error-not-deviation-from-reference", "%s: %.17g vs %.17g" % (tag_c, Ec[-1], want))
                    if not np.allclose(np.asarray(res_c[3], dtype=float), results_c[-1], rtol=1e-13, atol=0):
                        out.bad(sub + "/continued/returned-result-differs-from-last-evaluation", "%s: %s vs %s" % (tag_c, res_c[3], results_c[-1]))
                    out.cls("continued-with-%s/%s" % (["tighter-tolerance", "larger-point-limit", "limits-already-met"][cm], "refined" if nref_c else "no-refinement"))
            prev_objects = None      # the continued objects are not re-used for a second run
        if 0 < kstar < last:
            nt = True
        if kstar == 0:
            out.cls("limit-met-at-first-evaluation")
    if case.get("clock") and res is not None:
        # documented stopping rule max_time under a clock owned by the harness (drive.FakeClock; every reading advances it by
        # the next tick): whenever and wherever the budget runs out, the run must end in the state of one of its evaluations -
        # one array entry per evaluation, no refinement after the last evaluation, the reported result is that of the last
        # evaluation and the history is a prefix of the unlimited one.  (How many readings the driver takes is its own
        # business, so the model does not predict WHICH evaluation is the last one.)
        seen4 = set()
        sa4, op4, err4 = build(case, seen4)
        results4 = []
        res4, nref4 = run_limited(sa4, op4, err4, case, -1, 1, case["maxev"], 45, clock=case["clock"],
                                  hooks=lambda k: results4.append(np.array(op4.get_result(), dtype=float).copy()))
        tag4 = "max_time=%r with harness clock %r" % (case["clock"]["max_time"], case["clock"])
        if res4 is not None:
            E4, N4, S4 = [float(x) for x in res4[5]], [int(x) for x in res4[6]], [float(x) for x in res4[7]]
            nev = len(results4)
            if not (len(E4) == len(N4) == len(S4) == nev):
                out.bad(sub + "/max_time/history-arrays-length", "%s: %d evaluations, arrays %d/%d/%d" % (tag4, nev, len(E4), len(N4), len(S4)))
            else:
                if nref4 != nev - 1:
                    out.bad(sub + "/max_time/refined-after-the-last-evaluation", "%s: %d refinement steps, %d evaluations" % (tag4, nref4, nev))
                if N4 != N[:nev]:
                    out.bad(sub + "/max_time/not-a-prefix-of-the-unlimited-run/point-counts", "%s: %s vs %s" % (tag4, N4, N[:nev]))
                elif not np.allclose(np.asarray(res4[3], dtype=float), rec["results"][nev - 1], rtol=1e-12, atol=1e-300):
                    out.bad(sub + "/max_time/reported-result-is-not-that-of-the-last-evaluation", "%s: %s vs %s" % (tag4, res4[3], rec["results"][nev - 1]))
                if snapshot(sa4, kind) != rec["snaps"][nev - 1] and N4 == N[:nev]:
                    out.bad(sub + "/max_time/refinement-structure-not-that-of-the-last-evaluation", tag4)
                if N4 and N4[-1] != len(seen4):
                    out.bad(sub + "/max_time/point-count-not-distinct-evaluations", "%s: reported %d, evaluated %d" % (tag4, N4[-1], len(seen4)))
                out.cls("max_time/stopped-at-evaluation-%s" % ("0" if nev == 1 else ("last" if nev == len(N) else "inner")))
    out.nontrivial = nt
    out.cls("norm=%s" % p, "nout=%d" % case["nout"], "reference=%s" % case["refmode"], "fscale=%g" % case.get("fscale", 1.0))
    if kind == "dw":
        out.cls("version=%d" % case["version"])
    out.cls(drive.scale_class(case), "integrand-cache=%s" % ("off" if case.get("nocache") else "on"),
            "evaluation_points=%s" % ("given" if case.get("evalpts") else "none"))
    out.info = dict(max_history_len=len(E), max_points=N[-1] if N else 0)
    return out


def _strategy(kind):
    def strat(tier):
        @st.composite
        def s(draw):
            dim = draw(st.integers(2, 3))
            a, b = drive.st_box(draw, dim)
            nout = draw(st.integers(1, 2))
            fseed = draw(st.integers(0, 10 ** 6))
            # reference: the tensor-Gauss value of the integrand (close), a perturbed value (far) or zero
            refmode = draw(st.sampled_from(["close", "close", "far", "zero"]))
            xs, ws = np.polynomial.legendre.leggauss(12)
            ref = []
            for i in range(nout):
                g = drive.fit_to_box(drive.driver_function(dim, fseed + 7 * i), a, b)
                tot = 0.0
                for idx in itertools.product(range(12), repeat=dim):
                    pt = [a[d] + (b[d] - a[d]) * (xs[j] + 1) / 2 for d, j in enumerate(idx)]
                    tot += float(np.prod([ws[j] * (b[d] - a[d]) / 2 for d, j in enumerate(idx)])) * g(pt)
                ref.append(tot)
            if refmode == "far":
                ref = [r * 1.5 + 0.25 for r in ref]
            if refmode == "zero":
                ref = [0.0] * nout
            # magnitude of the integrand: the stopping rules and the relative error must not depend on it
            fscale = draw(st.sampled_from([1.0, 1.0, 1.0, 1e-4, 1e-10, 1e6]))
            ref = [r * fscale for r in ref]
            # the same problem with the box in other units: every clause of the statement is scale free
            sc = drive.st_boxscale(draw, dim, share=4)
            if sc is not None:
                ref = [r * float(np.prod(sc)) for r in ref]
            c = dict(kind=kind, dim=dim, a=a, b=b, nout=nout, fseed=fseed, reference=ref, refmode=refmode, fscale=fscale,
                     norm=draw(st.sampled_from(["inf", "inf", 2, 1])), boundary=True)
            if kind == "dw":
                c.update(lmin=draw(st.integers(1, 2)), version=draw(st.sampled_from([6, 6, 2, 3, 7, 8])),
                         rebalancing=draw(st.booleans()), boundary=draw(st.booleans()))
                c["lmax"] = c["lmin"] + draw(st.integers(1, 2))
                c["maxev"] = draw(st.integers(40, 400 if dim == 2 else 300))
            elif kind == "es":
                c.update(lmin=1, lmax=draw(st.integers(2, 3)), version=draw(st.sampled_from([0, 0, 1, 2])), nref=draw(st.integers(0, 2)))
                c["maxev"] = draw(st.integers(40, 600))
            else:
                c.update(lmin=draw(st.integers(1, 2)), lmax=None)
                c["maxev"] = draw(st.integers(20, 250))
            c["triples"] = draw(st.lists(st.tuples(st.integers(0, 40), st.sampled_from([0, 1, 1, 2, 3]), st.integers(0, 40), st.sampled_from([0, 0, 1, 2, 3]),
                                                   st.integers(0, 40), st.sampled_from([0, 1, 2, 3, 4])).map(list), min_size=1, max_size=3))
            c["nocache"] = draw(st.sampled_from([False, False, True]))
            c["cont"] = draw(st.sampled_from([None, 0, 1, 2, 3]))
            if draw(st.integers(0, 3)) == 0:
                c["clock"] = dict(ticks=draw(st.lists(st.sampled_from([1.0, 0.25, 1.0, 0.0, 3.0]), min_size=1, max_size=6)),
                                  model=draw(st.sampled_from(["same", "same", "same", "epoch"])),
                                  max_time=draw(st.sampled_from([2.5, 3.5, 1.5, 6.0, 0.9, 4.5, 0.1])))
            if kind == "dw" and draw(st.integers(0, 2)) == 0:
                # driver option evaluation_points (non-dyadic interior positions); dimension-wise only: the extend-split
                # interpolation evaluates the integrand at further points after the count of the step was taken (observed on
                # the unchanged tree, see DESIGN 6.3), the cell scheme has no interpolation
                fr = draw(st.lists(st.tuples(*[st.sampled_from([0.137, 0.291, 0.433, 0.617, 0.771, 0.913])] * dim), min_size=1, max_size=4))
                c["evalfr"] = [list(q) for q in fr]
            c = drive.apply_boxscale(c, sc)
            if c.get("evalfr"):
                c["evalpts"] = [[c["a"][d] + (c["b"][d] - c["a"][d]) * q[d] for d in range(dim)] for q in c.pop("evalfr")]
            return c
        return s()
    return strat


def selftest():
    assert abs(expected_error([1.1], [1.0], "inf") - 0.1) < 1e-12
    assert abs(expected_error([3.0, 4.0], [0.0, 0.0], 2) - 5.0 / np.sqrt(2)) < 1e-12
    assert abs(expected_error([1.0, 3.0], [2.0, 2.0], 1) - (0.5 + 0.5) / 2) < 1e-12


SUBS = [
    Sub("dw", _strategy("dw"), run, dict(quick=160, thorough=3000), budget_s=dict(quick=40, thorough=500)),
    Sub("es", _strategy("es"), run, dict(quick=100, thorough=2000), budget_s=dict(quick=40, thorough=500)),
    Sub("cell", _strategy("cell"), run, dict(quick=100, thorough=2000), budget_s=dict(quick=30, thorough=400)),
]
