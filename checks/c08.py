"""C08 — local tensor quadrature grids honour their exactness and point contracts.

One case = one grid object of one family (dimension 1-3, domain [a,b]) that is moved over 1-3 areas
(sub-box from dyadic bisections + anisotropic level vector) with ``setCurrentArea`` exactly like the extend-split
strategy does, and is asked for its points, weights, announced point numbers and for ``integrate`` of a vector valued
test function (polynomials + nodal unit functions).  Everything is compared with closed forms.  The object is also
re-used the way the library re-uses it: rejected requests in between, boundary flags changed with ``set_boundaries``
between two requests for the same area, repeated requests - always compared with a newly constructed object.
"""
import itertools
import math

import numpy as np
from hypothesis import strategies as st

from vlib.core import Outcome, Sub

PROPERTY = "C08"
RULE = ("case = family x boundary flag x d in 1..3 x domain [a,b] (ends from small integers, dyadic and non-dyadic "
        "floats; in half of the cases the whole domain, offset included, is multiplied by a unit s from {2^-30, 1e-9, "
        "1e-7, 1e-6, 1e-3, 1e3, 2^20}, the same or a different one per dimension, e.g. [4e-7,7e-7]) x 1..3 areas "
        "visited with the same grid object; an area = per dimension a path of 0..5 dyadic "
        "bisections of [a_d,b_d] (whole interval / touching a / touching b / interior) + a level 0..4 (Leja, Gauss "
        "0..3), levels drawn independently per dimension. Sub-check 'nodal': Trapezoidal, Simpson, Clenshaw-Curtis, "
        "Leja (boundary=True), Gauss-Legendre (normalize False/True), both integrators, Trapezoidal also with boundary="
        "False+modified_basis=True; 'hier': Lagrange p 1..6 (boundary=True), B-spline p 1,3,5 (boundary True / False / "
        "False+modified_basis=True); 'trap_boundary': Trapezoidal boundary=False (a third with modified_basis=True) "
        "against boundary=True and against the composite trapezoidal model. Constructor options the library refuses "
        "(boundary=True with modified_basis, Lagrange modified_basis, even B-spline degree, unknown integrator) are "
        "fixed cases that are only counted. Non-trivial = d>=2 and some visited area is a proper sub-box with a "
        "non-constant level vector (trap_boundary additionally: that area touches the global boundary, i.e. points "
        "are really dropped). Per area: integrate(1+linear) is called first while the grid still sits on the previous "
        "area (stale state), then setCurrentArea, points, weights, announced numbers, integrate of a vector valued "
        "function (all t-monomials up to the nominal degree, sampled if > 400/120, + nodal unit functions when <= "
        "300/64 points) and of a random scalar combination. Error paths: a third of the cases issues 1-2 requests that "
        "the unchanged library rejects by raising (level vector as NumPy integer array with a negative entry, None / "
        "NaN / non-integer / negative Python int entry, level vector too short / too long, start too short, end too "
        "long; through setCurrentArea or integrate) on the same object before one of the valid areas; the exception is "
        "caught and every following valid area must pass all clauses and give bit-identical announced numbers, points "
        "and weights as a fresh object that only got the valid requests (signature suffix /after-a-rejected-request "
        "for whatever fails only on the object with the rejected request). Re-used object ('flagprog', every second "
        "trap_boundary case incl. all that construct TrapezoidalGrid(boundary=True) there, 1/5 of hier, 1/6 of nodal): "
        "after a visited area 1-2 entries, each = a public state change followed by a request for the SAME area and "
        "level vector on the same object: set_boundaries(all flags inverted / all on (the library's own save, switch "
        "on, set area, restore sequence) / all off / independent flags per dimension; list or NumPy bool array) for "
        "Trapezoidal (trap_boundary) and B-spline without modified basis (hier), for every family the "
        "set_boundaries(get_boundaries()) round trip, set_boundaries([True]*d) on a boundary=True grid and the plain "
        "repeated request; in a third another area is requested in between; in half the flags are restored with the "
        "array get_boundaries() returned and the area is requested a third time; later areas are visited under the "
        "flags then in force. Every such request gets all clauses for the flags in force (count, inside, nothing on a "
        "switched-off global face, weight sum, exactness, composite trapezoidal model, boundary-on twin minus the "
        "global-boundary points; at most 48/24 test functions) and must give bit-identical announced numbers, points "
        "and weights as a new object constructed with those flags that gets this one request (signature "
        ".../reused-object). Distinct = distinct case dict.")
ASSUMPTIONS = [
    "boundary=False is exercised for TrapezoidalGrid and BSplineGrid only; Simpson/Clenshaw-Curtis/Leja/Lagrange "
    "with boundary=False have no caller, test or tutorial in the repository and are excluded (DESIGN section 3.1)",
    "a grid that dropped points on the global boundary cannot have full mass; for such an area 'weights sum to the "
    "volume' is not asserted; Trapezoidal: exactness is asserted for the polynomials of degree <=1 that vanish on the "
    "dropped global boundary faces (implied by 'remaining points and weights unchanged'); B-spline: no exactness "
    "(its higher-level basis functions do not vanish at the ends), only count/inside/complete basis/integrate linear "
    "in the nodal values; an area of a boundary=False grid from which no point was dropped gets all clauses",
    "modified_basis=True (Trapezoidal, B-spline; needs boundary=False): points exclude the global border, weights "
    "(B-spline: effective nodal weights) sum to the volume and constants and linear functions are exact on every "
    "sub-box that has a point at all (a dimension that dropped a border point: degree 1 by extrapolation; other "
    "dimensions: the family's degree); the point-by-point comparison with boundary=True is not applicable there",
    "GaussLegendreGrid(normalize=True) documents weights that sum to 1 per dimension: every closed form is divided "
    "by the box volume",
    "Simpson's degree 3 needs n>=3 points; with n=2 (level 0) degree 1 is demanded",
    "Lagrange: demanded degree is min(p, n-1, level+1) with n=2^level+1: a hierarchical Lagrange function of level l "
    "is built on its <= l+2 hierarchical ancestors, so the space of level l only contains degree l+1 (the repository's "
    "test_Integrator claims degree p from level p-1 on); this equals the statement's min(p, n-1) for p<=3 and is "
    "weaker only for p>=4 at levels 2..p-2",
    "for Lagrange/B-spline the 'weights' are integrals of hierarchical basis functions by design; 'sum to the box "
    "volume' and exactness are asserted on the effective nodal weights W_j = integrate(unit function of point j) "
    "and through integrate() of polynomials",
    "polynomials are written in the box-centred variable t=(x-mid)/half (any basis of the polynomial space is "
    "equivalent; this one keeps every test function bounded by 1 so that the tolerance is relative to the volume)",
    "level vectors are lists of ints >= 0 (extend-split passes level - lmin >= 0), a/b/start/end are float numpy "
    "arrays, sub-box ends are produced by (s+e)/2 like Grid1d.get_mid_point",
    "GaussLegendreGrid is used with normalize=False (Grid_Tutorial)",
    "invalid requests are exactly the kinds every family rejects by raising on the unchanged tree (probed: 9 kinds x 9 "
    "family/flag combinations x setCurrentArea/integrate); inputs the library silently accepts (start>=end, box outside "
    "the domain, start=None; float / negative Python int levels for Gauss-Legendre) are not used; nothing is asserted "
    "about the exception type, only about the object afterwards",
    "flags are changed only through Grid.set_boundaries (the public setter GridOperation.Integration itself uses: "
    "save get_boundaries(), set_boundaries([True]*dim), setCurrentArea, set_boundaries(saved)) and only between two "
    "requests; really different flags only for the families for which boundary=False is in the accepted domain "
    "(Trapezoidal, B-spline) and not for modified_basis=True grids (the constructors refuse boundary=True with "
    "modified_basis, so no object 'constructed with the corresponding flags' exists); the other families only get "
    "calls that leave the flags as they are",
    "the object 'constructed with the corresponding flags' is the family's constructor with boundary=<flag> when all "
    "dimensions agree, MixedGrid over new TrapezoidalGrid1D(boundary=flag_k) for per-dimension trapezoidal flags, "
    "and constructor + set_boundaries before the first request for per-dimension B-spline flags; Grid.boundary (the "
    "attribute of the tensor grid, only read by point_not_zero) is not part of the statement and not compared",
    "really switched trapezoidal flags live in sub-check trap_boundary only, so that the level-0 mid point deviation "
    "F-C08-a keeps its one cause-based signature",
    "every tolerance of the harness is relative (to the box volume, to |start|+|end| of the dimension); 'on the global "
    "boundary' is known exactly from the bisection path, never from a comparison of floats",
]

NODAL = ("trapezoidal", "simpson", "cc", "leja", "gauss")
HIER = ("lagrange", "bspline")

# tolerances (relative to the box volume; all test functions are bounded by 1 on the box).
# observed maxima on the unchanged tree (60 000 thorough cases): exactness nodal 2.4e-13 (boxes of width 0.0125 at
# x=10: the conditioning of t=(x-mid)/half), Leja 1.4e-13, hierarchical 1.7e-13; sum of weights 8e-16 (hierarchical
# 3.6e-14, linearity 5.6e-14); unit function vs weight 0.  A real defect (wrong weight, wrong knot, wrong area) shows at >= 1e-4.
# with bisection depth up to 5 and domains in unusual units (18 000 further thorough cases): nodal 7.9e-13, hier. 8e-13
TOL_EXACT = {"trapezoidal": 1e-10, "simpson": 1e-10, "cc": 1e-10, "gauss": 1e-10, "leja": 1e-9,
             "lagrange": 2e-10, "bspline": 2e-10}
TOL_WSUM = {"trapezoidal": 1e-12, "simpson": 1e-12, "cc": 1e-12, "gauss": 1e-12, "leja": 1e-10}
TOL_UNIT = 1e-13        # integrate(unit function j) == weight j   (nodal families, one product, no summation)
TOL_INSIDE = 1e-12      # relative to (|start|+|end|) of the dimension
TOL_MODEL = 1e-13       # trapezoidal points (relative to |start|+|end|) / weights (relative to the volume) against the model
# No tolerance of the harness is absolute: domains are also generated in unusual units (scaled by 2^-30 ... 2^20).
# The rounding error of t=(x-mid)/half grows like eps*(|start|+|end|)/length; the exactness tolerances are widened by
# that condition number / 1000 when it exceeds 1000 (deep bisections of a narrow domain far from the origin).


def exact_tol(fam, area):
    cond = float(np.max((np.abs(area.start) + np.abs(area.end)) / area.length))
    return TOL_EXACT[fam] * max(1.0, cond / 1000.0)


# ----------------------------------------------------------------------------------------------------------------
# reference side
# ----------------------------------------------------------------------------------------------------------------
def sub_interval(a, b, path):
    """dyadic bisections of [a,b]; returns start, end, touches_a, touches_b (known exactly from the path)."""
    s, e = float(a), float(b)
    for c in path:
        m = (s + e) / 2.0
        if c == 0:
            e = m
        else:
            s = m
    return s, e, all(c == 0 for c in path), all(c == 1 for c in path)


def nominal_degree(family, p, n, level=None):
    """degree of exactness the statement promises with n points in one dimension (level: see ASSUMPTIONS, Lagrange)"""
    if n <= 0:
        return -1
    if family == "trapezoidal":
        return 1 if n >= 2 else 0
    if family == "simpson":
        return 3 if n >= 3 else (1 if n == 2 else 0)
    if family in ("cc", "leja"):
        return n - 1
    if family == "gauss":
        return 2 * n - 1
    if family == "bspline":
        return min(p, n - 1)
    if family == "lagrange":
        # a hierarchical Lagrange function of level l is built on its <= l+2 hierarchical ancestors, i.e. has degree
        # <= l+1: min(p, n-1) and min(p, l+1) agree for p<=3 and differ only for p>=4 (see ASSUMPTIONS)
        return min(p, n - 1) if level is None else min(p, n - 1, level + 1)
    raise ValueError(family)


def exact_factor_integral(k, la, lb, half):
    """int_{start}^{end} t^k ((1+t)/2)^la ((1-t)/2)^lb dx with t=(x-mid)/half"""
    P = np.polynomial.Polynomial
    q = P([0.0] * k + [1.0])
    if la:
        q = q * P([0.5, 0.5])
    if lb:
        q = q * P([0.5, -0.5])
    F = q.integ()
    return half * (F(1.0) - F(-1.0))


def trapezoid_model_1d(s, e, level, drop_left, drop_right):
    """composite trapezoidal rule with 2^level+1 points on [s,e] minus the requested end points"""
    n = 2 ** level + 1
    h = (e - s) / (n - 1)
    x = [s + i * h for i in range(n)]
    x[-1] = e
    w = [h] * n
    w[0] = w[-1] = h / 2.0
    lo = 1 if drop_left else 0
    hi = n - 1 if drop_right else n
    return np.array(x[lo:hi]), np.array(w[lo:hi])


class Area(object):
    def __init__(self, case, spec):
        d = case["d"]
        self.level = [int(x) for x in spec["lv"]]
        self.start = np.empty(d)
        self.end = np.empty(d)
        self.touch_a, self.touch_b = [], []
        for k in range(d):
            s, e, ta, tb = sub_interval(case["a"][k], case["b"][k], spec["path"][k])
            self.start[k], self.end[k] = s, e
            self.touch_a.append(ta)
            self.touch_b.append(tb)
        self.length = self.end - self.start
        self.volume = float(np.prod(self.length))
        self.mid = (self.start + self.end) / 2.0
        self.half = self.length / 2.0
        self.proper = any(len(p) > 0 for p in spec["path"])
        self.touches = any(self.touch_a) or any(self.touch_b)
        self.nonconstant = len(set(self.level)) > 1


def build_test_functions(family, p, area, npts_dim, dropped, rng, max_functions, degree_override=None):
    """exponent vectors K (m x d) with the per-dimension vanishing flags, and their exact integrals"""
    d = len(npts_dim)
    per_dim = []
    for k in range(d):
        la = 1 if dropped[k][0] else 0
        lb = 1 if dropped[k][1] else 0
        deg = nominal_degree(family, p, int(npts_dim[k]), area.level[k]) - la - lb
        if degree_override is not None and degree_override[k] is not None:
            deg = degree_override[k]
        per_dim.append(list(range(0, deg + 1)))
    if any(len(x) == 0 for x in per_dim):
        return np.zeros((0, d), dtype=int), np.zeros(0)
    total = int(np.prod([len(x) for x in per_dim]))
    if total <= max_functions:
        K = list(itertools.product(*per_dim))
    else:
        K = set()
        for k in range(d):                      # every degree alone in every dimension
            for e in per_dim[k]:
                v = [0] * d
                v[k] = e
                K.add(tuple(v))
        K.add(tuple(x[-1] for x in per_dim))    # the highest mixed monomial
        while len(K) < max_functions:
            K.add(tuple(int(rng.choice(x)) for x in per_dim))
        K = sorted(K)
    K = np.array(K, dtype=int).reshape(len(K), d)
    fac = [[exact_factor_integral(e, 1 if dropped[k][0] else 0, 1 if dropped[k][1] else 0, area.half[k])
            for e in range(0, max(per_dim[k]) + 1)] for k in range(d)]
    exact = np.array([np.prod([fac[k][K[j, k]] for k in range(d)]) for j in range(len(K))])
    return K, exact


def make_function(area, K, dropped, unit_index, nunits):
    """vector valued sparseSpACE Function: first the polynomials, then the nodal unit functions"""
    from sparseSpACE.Function import Function
    d = len(area.mid)
    m = len(K)
    maxk = [int(K[:, k].max()) if m else 0 for k in range(d)]
    state = dict(foreign=0)

    class TestFunction(Function):
        def output_length(self):
            return m + nunits

        def eval(self, coordinates):
            x = np.asarray(coordinates, dtype=float)
            val = np.zeros(m + nunits)
            if m:
                t = (x - area.mid) / area.half
                prod = np.ones(m)
                for k in range(d):
                    table = t[k] ** np.arange(maxk[k] + 1)
                    if dropped[k][0]:
                        table = table * (1 + t[k]) / 2.0
                    if dropped[k][1]:
                        table = table * (1 - t[k]) / 2.0
                    prod *= table[K[:, k]]
                val[:m] = prod
            if nunits:
                j = unit_index.get(tuple(float(c) for c in x))
                if j is None:
                    state["foreign"] += 1
                else:
                    val[m + j] = 1.0
            return val

    f = TestFunction()
    f.c08_state = state
    return f


# ----------------------------------------------------------------------------------------------------------------
# library side
# ----------------------------------------------------------------------------------------------------------------
def make_grid(case, boundary=None):
    from sparseSpACE import Grid as G
    a = np.array(case["a"], dtype=float)
    b = np.array(case["b"], dtype=float)
    fam = case["family"]
    bd = case["boundary"] if boundary is None else boundary
    integ = case.get("integrator", "old" if case.get("old_integrator") else None)
    mod = bool(case.get("modified_basis", False)) and boundary is None     # (the boundary=True twin is never modified)
    if fam == "trapezoidal":
        return G.TrapezoidalGrid(a, b, boundary=bd, integrator=integ, modified_basis=mod)
    if fam == "simpson":
        return G.SimpsonGrid(a, b, boundary=bd, integrator=integ)
    if fam == "cc":
        return G.ClenshawCurtisGrid(a, b, boundary=bd, integrator=integ)
    if fam == "leja":
        return G.LejaGrid(a, b, boundary=bd, integrator=integ)
    if fam == "gauss":
        return G.GaussLegendreGrid(a, b, normalize=bool(case.get("normalize", False)))
    if fam == "lagrange":
        return G.LagrangeGrid(a, b, boundary=bd, p=case["p"], modified_basis=mod)
    if fam == "bspline":
        return G.BSplineGrid(a, b, boundary=bd, p=case["p"], modified_basis=mod)
    raise ValueError(fam)


def bucket(deg):
    return "deg0" if deg == 0 else "deg1" if deg == 1 else "deg2-3" if deg <= 3 else "deg>=4"


def check_area(out, sub, case, grid, area, rng, info, tag, limits, obs=None, flags=None):
    """all clauses of the statement for one visited area; returns the observed (points, weights) or None.
    flags = the boundary flags (one per dimension) that are in force on the object: the constructor's flag unless
    the harness changed them with set_boundaries"""
    fam, p, d = case["family"], case.get("p", 0), case["d"]
    bfl = [True] * d if fam == "gauss" else ([bool(case["boundary"])] * d if flags is None else [bool(x) for x in flags])
    boundary = all(bfl)
    lv = list(area.level)
    modified = bool(case.get("modified_basis", False))
    # GaussLegendreGrid(normalize=True) documents weights that sum to 1: every closed form is divided by the volume
    vol = 1.0 if case.get("normalize") else area.volume
    norm = vol / area.volume
    # modified basis (boundary=False): the weight of a dropped border point is redistributed by extrapolation, the
    # grid keeps full mass and degree 1 as long as it has a point at all
    has_points = not any((not bfl[k]) and area.level[k] == 0 and area.touch_a[k] and area.touch_b[k] for k in range(d))
    off_touches = any((not bfl[k]) and (area.touch_a[k] or area.touch_b[k]) for k in range(d))
    # integrate() must set the area up itself (Integration.evaluate_area calls it without setCurrentArea): call it
    # while the grid still sits on the previous area (or on none).  Integrand 1 + sum_d c_d t_d, degree 1 <= nominal
    # degree of every family as soon as n >= 2, which holds at every level when no point is dropped.
    if not off_touches or (modified and has_points):
        if not (fam == "bspline" and not boundary):      # (interior boxes of boundary-off B-splines: F-C08-b)
            from sparseSpACE.Function import Function
            c = rng.uniform(-1.0, 1.0, size=d)

            class Linear(Function):
                def output_length(self):
                    return 1

                def eval(self, coordinates):
                    return 1.0 + float(np.dot(c, (np.asarray(coordinates, dtype=float) - area.mid) / area.half))

            r0 = np.asarray(grid.integrate(Linear(), lv, area.start.copy(), area.end.copy()), dtype=float).reshape(-1)
            if len(r0) != 1 or abs(r0[0] - vol) > exact_tol(fam, area) * vol * (1 + d):
                out.bad("%s/integrate/%s-without-previous-setCurrentArea" % (sub, fam),
                        "%s: integrate(1 + linear) called right after the previous area = %s, volume %.17g; start=%s end=%s level=%s"
                        % (tag, r0.tolist(), vol, area.start.tolist(), area.end.tolist(), lv))
    grid.setCurrentArea(area.start.copy(), area.end.copy(), lv)
    points, weights = grid.get_points_and_weights()
    announced = [int(x) for x in grid.levelToNumPoints(lv)]
    points = [tuple(float(c) for c in pt) for pt in points]
    weights = np.asarray(weights, dtype=float).reshape(-1)
    npts = int(np.prod(announced))
    info["max_points"] = max(info.get("max_points", 0), npts)
    if obs is not None:
        obs.update(announced=announced, points=points, weights=weights)

    # --- clause 1: as many points as announced -------------------------------------------------------------
    if len(points) != npts or len(weights) != npts:
        out.bad("%s/count/%s" % (sub, fam), "%s: %d points, %d weights, announced %s" % (tag, len(points), len(weights), announced))
        return None
    if len(set(points)) != len(points):
        out.bad("%s/count/%s-duplicate-points" % (sub, fam), "%s: %d points, %d distinct" % (tag, len(points), len(set(points))))
        return None
    # which global boundary faces lost their point (only possible with boundary=False; Gauss has no end points)
    dropped = [(False, False)] * d
    if fam in ("trapezoidal", "bspline") and not boundary:
        dropped = [(bool(area.touch_a[k]) and not bfl[k], bool(area.touch_b[k]) and not bfl[k]) for k in range(d)]
    if npts == 0:
        out.cls("empty-grid")
    pts = np.array(points, dtype=float).reshape(npts, d)

    # --- clause 2: inside the closed sub-box ------------------------------------------------------------------
    if npts:
        tol = TOL_INSIDE * (np.abs(area.start) + np.abs(area.end))
        below = pts < area.start - tol
        above = pts > area.end + tol
        if below.any() or above.any():
            j = int(np.argmax((below | above).any(axis=1)))
            out.bad("%s/outside/%s" % (sub, fam), "%s: point %s outside [%s,%s]" % (tag, points[j], area.start.tolist(), area.end.tolist()))
            return None

    any_dropped = any(x or y for x, y in dropped)
    mode = ("modified" if modified else "dropped") if any_dropped else "full"
    out.cls("mode=" + mode)
    # boundary=False: no point on a global border face the sub-box touches (known exactly from the bisection path)
    if any_dropped and npts:
        for k in range(d):
            tol_k = TOL_INSIDE * (abs(area.start[k]) + abs(area.end[k]))
            if (dropped[k][0] and np.any(np.abs(pts[:, k] - area.start[k]) <= tol_k)) or \
                    (dropped[k][1] and np.any(np.abs(pts[:, k] - area.end[k]) <= tol_k)):
                out.bad("%s/points/%s-point-on-the-global-border-with-boundary-off" % (sub, fam),
                        "%s: dim %d coordinates %s, start=%s end=%s level=%s" % (tag, k, sorted(set(pts[:, k].tolist()))[:6],
                                                                               area.start.tolist(), area.end.tolist(), lv))
                break
    degree_override = None
    if mode == "modified":
        # constants and linear functions are exact on every sub-box (dimensions that dropped a point: degree 1, no
        # vanishing factor; other dimensions: the family's degree), weights sum to the volume
        degree_override = [(1 if announced[k] >= 1 else -1) if (dropped[k][0] or dropped[k][1]) else None for k in range(d)]
        dropped = [(False, False)] * d

    # --- B-spline, boundary off: is the basis complete?  (cause of finding F-C08-b, see known_findings.d) ---------
    if fam == "bspline" and not boundary:
        missing = []
        for k in range(d):
            for idx, on_global in ((0, area.touch_a[k]), (announced[k] - 1, area.touch_b[k])):
                if not bfl[k] and announced[k] >= 1 and not on_global and grid.get_basis(k, idx) is None:
                    missing.append((k, idx))
        if missing:
            out.bad("%s/basis/bspline-boundary-off-no-basis-at-interior-subbox-end" % sub,
                    "%s: BSplineGrid(boundary=False) start=%s end=%s level=%s: get_basis(dim,index) is None for %s "
                    "(the end point of the sub-box is a grid point that is not on the global boundary, its weight is %s)"
                    % (tag, area.start.tolist(), area.end.tolist(), lv, missing, weights.tolist()[:6]))
            return points, weights

    # --- clause 3: weights sum to the volume (nodal families, nothing dropped) ------------------------------------
    if fam in NODAL and mode in ("full", "modified") and npts:
        err = abs(float(np.sum(weights)) - vol) / vol
        info["max_wsum_err"] = max(info.get("max_wsum_err", 0.0), err)
        if err > TOL_WSUM[fam]:
            out.bad("%s/wsum/%s" % (sub, fam), "%s: sum of weights %.17g, volume %.17g (rel %.3g) start=%s end=%s level=%s"
                    % (tag, float(np.sum(weights)), vol, err, area.start.tolist(), area.end.tolist(), lv))

    # --- clause 4: polynomial exactness + effective nodal weights through integrate() ----------------------------
    # B-spline basis functions of the higher levels do not vanish at the ends of the box, so a B-spline grid that
    # dropped points promises no polynomial exactness at all (not even for polynomials vanishing there): only
    # "integrate works and is linear in the nodal values" is asserted, with the constant as integrand.
    check_exact = not (fam == "bspline" and mode == "dropped")
    if check_exact:
        K, exact = build_test_functions(fam, p, area, announced, dropped, rng, limits["max_functions"], degree_override)
        exact = exact * norm
    else:
        K, exact = np.zeros((1, d), dtype=int), np.array([np.nan])
        dropped = [(False, False)] * d
    use_units = 0 < npts <= limits["max_unit_points"]
    unit_index = {pt: j for j, pt in enumerate(points)} if use_units else {}
    nunits = npts if use_units else 0
    if len(K) + nunits == 0:
        out.cls("no-test-function")
        return points, weights
    f = make_function(area, K, dropped, unit_index, nunits)
    res = grid.integrate(f, lv, area.start.copy(), area.end.copy())
    out.cls("integrated:%s/%s" % (fam, mode))
    if npts == 0:
        if np.any(np.asarray(res, dtype=float) != 0.0):
            out.bad("%s/integrate/%s-empty-grid-nonzero" % (sub, fam), "%s: integrate on an empty grid returned %s" % (tag, res))
        return points, weights
    res = np.asarray(res, dtype=float).reshape(-1)
    if len(res) != len(K) + nunits:
        out.bad("%s/integrate/%s-output-shape" % (sub, fam), "%s: %d results for %d components" % (tag, len(res), len(K) + nunits))
        return points, weights
    if f.c08_state["foreign"]:
        out.bad("%s/integrate/%s-evaluated-off-grid" % (sub, fam), "%s: the integrand was evaluated at %d points that getPoints() does not list" % (tag, f.c08_state["foreign"]))
    m = len(K)
    if m and check_exact:
        err = np.abs(res[:m] - exact) / vol
        info["max_exact_err_" + fam] = max(info.get("max_exact_err_" + fam, 0.0), float(err.max()))
        badj = np.nonzero(err > exact_tol(fam, area))[0]
        if len(badj):
            j = int(badj[np.argmin(K[badj].max(axis=1))])     # report the lowest failing degree
            lowest = int(K[badj].max(axis=1).min())
            out.bad("%s/exactness/%s-%s-%s" % (sub, fam, mode, bucket(lowest)),
                    "%s: t-exponents %s%s: integrate=%.17g exact=%.17g (rel. to volume %.3g); start=%s end=%s level=%s n=%s"
                    % (tag, K[j].tolist(), " (times the factors vanishing on the dropped faces)" if mode == "dropped" else "",
                       res[j], exact[j], err[j], area.start.tolist(), area.end.tolist(), lv, announced))
    if nunits:
        W = res[m:]
        if fam in NODAL:
            err = float(np.max(np.abs(W - weights))) / vol
            info["max_unit_err"] = max(info.get("max_unit_err", 0.0), err)
            if err > TOL_UNIT:
                out.bad("%s/integrate/%s-unit-function-differs-from-weight" % (sub, fam),
                        "%s: integrate(unit function j) != get_weights()[j], max diff %.3g of the volume" % (tag, err))
        else:
            if mode in ("full", "modified"):
                err = abs(float(np.sum(W)) - vol) / vol
                info["max_wsum_err"] = max(info.get("max_wsum_err", 0.0), err)
                if err > exact_tol(fam, area):
                    out.bad("%s/wsum/%s" % (sub, fam), "%s: effective nodal weights sum to %.17g, volume %.17g; start=%s end=%s level=%s"
                            % (tag, float(np.sum(W)), vol, area.start.tolist(), area.end.tolist(), lv))
            if m:
                # linearity: integrate(q) == sum_j W_j q(x_j) for every polynomial of the test set
                vals = np.array([f.eval(pt)[:m] for pt in points])        # npts x m
                lin = W @ vals
                err = float(np.max(np.abs(lin - res[:m]))) / vol
                info["max_linearity_err"] = max(info.get("max_linearity_err", 0.0), err)
                if err > exact_tol(fam, area):
                    out.bad("%s/integrate/%s-not-linear-in-nodal-values" % (sub, fam),
                            "%s: integrate(q) differs from sum_j integrate(e_j) q(x_j) by %.3g of the volume" % (tag, err))
    # scalar integrand (the usual call): one random combination of the polynomials
    if m and check_exact:
        c = rng.uniform(-1.0, 1.0, size=m)
        fs = make_function(area, K, dropped, {}, 0)
        inner_eval = fs.eval

        from sparseSpACE.Function import Function

        class Scalar(Function):
            def output_length(self):
                return 1

            def eval(self, coordinates):
                return float(np.dot(c, inner_eval(coordinates)))

        r1 = np.asarray(grid.integrate(Scalar(), lv, area.start.copy(), area.end.copy()), dtype=float).reshape(-1)
        want = float(np.dot(c, exact))
        if len(r1) != 1:
            out.bad("%s/integrate/%s-output-shape" % (sub, fam), "%s: scalar integrand returned shape %s" % (tag, r1.shape))
        else:
            err = abs(r1[0] - want) / (vol * max(1.0, float(np.sum(np.abs(c)))))
            if err > exact_tol(fam, area):
                out.bad("%s/exactness/%s-%s-scalar-integrand" % (sub, fam, mode),
                        "%s: random combination of the test polynomials: integrate=%.17g exact=%.17g" % (tag, r1[0], want))
    return points, weights


def compare_with_trapezoid_model(out, sub, case, area, points, weights, flags, tag):
    """points and weights against the composite trapezoidal rule minus the points on the *global* boundary (in the
    dimensions whose boundary flag is off)"""
    d = case["d"]
    boundary = all(flags)
    obs = np.array(points, dtype=float).reshape(len(points), d)
    model_x, model_w = [], []
    midpoint_dims = []
    for k in range(d):
        dl = (not flags[k]) and area.touch_a[k]
        dr = (not flags[k]) and area.touch_b[k]
        x, w = trapezoid_model_1d(area.start[k], area.end[k], area.level[k], dl, dr)
        ox = np.unique(obs[:, k]) if len(obs) else np.zeros(0)
        scale = abs(area.start[k]) + abs(area.end[k])
        same = len(ox) == len(x) and (len(x) == 0 or np.max(np.abs(ox - x)) <= TOL_MODEL * scale)
        if not same and len(obs):
            ga, gb = case["a"][k], case["b"][k]
            if (area.level[k] == 0 and (dl != dr) and len(ox) == 1
                    and abs(ox[0] - (area.start[k] + area.end[k]) / 2.0) <= TOL_MODEL * scale):
                # observed cause of finding F-C08-a: the one remaining corner is replaced by the mid point
                midpoint_dims.append(k)
                x = np.array([(area.start[k] + area.end[k]) / 2.0])
                w = np.array([area.end[k] - area.start[k]])
            else:
                if any(abs(c - ga) <= TOL_MODEL * scale or abs(c - gb) <= TOL_MODEL * scale for c in ox) and not flags[k]:
                    cause = "global-boundary-point-kept"
                elif len(ox) < len(x):
                    cause = "non-boundary-point-dropped"
                elif len(ox) > len(x):
                    cause = "extra-point"
                else:
                    cause = "coordinates-differ"
                out.bad("%s/points/%s" % (sub, cause),
                        "%s: dim %d level %d [%s,%s] of global [%s,%s] boundary=%s: coordinates %s, model %s"
                        % (tag, k, area.level[k], area.start[k], area.end[k], ga, gb, flags[k], ox.tolist(), x.tolist()))
                return
        model_x.append(x)
        model_w.append(w)
    if midpoint_dims:
        out.bad("%s/points/level0-one-sided-single-point-is-midpoint-with-full-length-weight" % sub,
                "%s: TrapezoidalGrid, boundary flag off and level 0 in dim(s) %s, sub-interval touches the global boundary on one "
                "side: boundary-on points are the two corners; expected the remaining corner with weight length/2, "
                "observed the mid point; start=%s end=%s level=%s points=%s weights=%s"
                % (tag, midpoint_dims, area.start.tolist(), area.end.tolist(), area.level, points[:4], np.asarray(weights).tolist()[:4]))
    if not len(obs):
        return
    # order independent comparison of the tensor weights
    mw = {}
    for idx in itertools.product(*[range(len(x)) for x in model_x]):
        mw[idx] = float(np.prod([model_w[k][idx[k]] for k in range(d)]))
    for pt, wv in zip(obs, weights):
        idx = tuple(int(np.argmin(np.abs(model_x[k] - pt[k]))) for k in range(d))
        want = mw.pop(idx, None)
        if want is None:
            out.bad("%s/points/not-a-tensor-grid" % sub, "%s: point %s appears twice or not at all in the model" % (tag, pt.tolist()))
            return
        if abs(wv - want) > TOL_MODEL * area.volume:
            out.bad("%s/weights/%s" % (sub, "remaining-weight-changed" if not boundary else "differs-from-composite-trapezoidal"),
                    "%s: weight of %s is %.17g, model %.17g; start=%s end=%s level=%s boundary=%s"
                    % (tag, pt.tolist(), wv, want, area.start.tolist(), area.end.tolist(), area.level, list(flags)))
            return
    if mw:
        out.bad("%s/points/not-a-tensor-grid" % sub, "%s: %d model points missing" % (tag, len(mw)))


INVALID_KINDS = ("neg-npint", "none", "nan", "short", "long", "start-short", "end-long", "float", "neg-pyint")
# kinds that GaussLegendreGrid silently accepts (it truncates the point number with int()): not used for it
INVALID_NOT_FOR = {"gauss": ("float", "neg-pyint")}


def issue_invalid_request(grid, case, area, inv):
    """one request the unchanged library rejects by raising; returns the exception type name or None if accepted"""
    from sparseSpACE.Function import FunctionCustom
    d = case["d"]
    k = inv["dim"] % d
    start, end, lv = area.start.copy(), area.end.copy(), list(area.level)
    kind = inv["kind"]
    if kind == "neg-npint":                 # e.g. the result of lmax - k arithmetic on NumPy integers
        lv = np.array(lv, dtype=int)
        lv[k] = -1 - (inv["dim"] // 3) % 2
    elif kind == "none":
        lv[k] = None
    elif kind == "nan":
        lv[k] = float("nan")
    elif kind == "float":
        lv[k] = lv[k] + 0.5
    elif kind == "neg-pyint":
        lv[k] = -1
    elif kind == "short":
        lv = lv[:-1]
    elif kind == "long":
        lv = lv + [1]
    elif kind == "start-short":
        start = start[:-1]
    elif kind == "end-long":
        end = np.append(end, end[-1] + 1.0)
    else:
        raise ValueError(kind)
    try:
        if inv["call"] == "set":
            grid.setCurrentArea(start, end, lv)
        else:
            grid.integrate(FunctionCustom(lambda x: 1.0), lv, start, end)
    except Exception as ex:  # the contract here is "raises on invalid input": any exception is the rejection
        return type(ex).__name__
    return None


FLAG_KINDS = ("repeat", "same", "on", "off", "flip", "mixed")


def target_flags(entry, cur, d):
    """the boundary flags the harness expects on the object after the entry's set_boundaries call"""
    kind = entry["to"]
    if kind in ("repeat", "same"):
        return list(cur)
    if kind == "on":
        return [True] * d
    if kind == "off":
        return [False] * d
    if kind == "flip":
        return [not x for x in cur]
    if kind == "mixed":
        return [bool(x) for x in entry["mixed"][:d]]
    raise ValueError(kind)


def fresh_grid(grid_factory, case, flags):
    """a new grid object that carries the given boundary flags from its construction on: the family's constructor with
    boundary=<flag> when all dimensions agree; per-dimension flags: MixedGrid over freshly constructed
    TrapezoidalGrid1D(boundary=flag_k) (B-spline: constructor + set_boundaries before the first request)"""
    d = case["d"]
    flags = [bool(x) for x in flags]
    if case["family"] == "gauss" or flags == [bool(case["boundary"])] * d:
        return grid_factory(case)
    if len(set(flags)) == 1:
        return grid_factory(dict(case, boundary=flags[0]))
    if case["family"] == "trapezoidal":
        from sparseSpACE import Grid as G
        a = np.array(case["a"], dtype=float)
        b = np.array(case["b"], dtype=float)
        integ = case.get("integrator", "old" if case.get("old_integrator") else None)
        return G.MixedGrid(a, b, [G.TrapezoidalGrid1D(a=a[k], b=b[k], boundary=flags[k]) for k in range(d)],
                           integrator=integ)
    g = grid_factory(case)
    g.set_boundaries(list(flags))
    return g


def run_sequence(case, sub, grid_factory, invalid, reference=None):
    """drive one grid object through the areas of the case (the invalid requests and the flag program in between, if
    any).  reference = (signatures, observations) of a fresh object that only got the valid requests."""
    out = Outcome()
    fam, d = case["family"], case["d"]
    rng = np.random.default_rng(case["rng"])
    grid = grid_factory(case)
    limits = dict(max_functions=120 if fam in HIER else 400,
                  max_unit_points=64 if fam in HIER else 300)
    # requests of the flag program (the same area again, the area in between): fewer test functions per request; the
    # comparison with a fresh object is bit-wise on all points and weights anyway
    limits_again = dict(max_functions=24 if fam in HIER else 48, max_unit_points=16 if fam in HIER else 48)
    info = {}
    nt = False
    observations = []
    state = dict(rejected=False, reused=False)
    flagprog = case.get("flagprog") or []
    cur = [bool(case["boundary"])] * d            # the harness's model of the flags in force
    history = []                                  # what was done to the object (for the messages)

    def visit(area, tag, flags, limits=limits):
        """one request for an area on the shared object with all clauses; returns the observation"""
        rejected = state["rejected"]
        nviol = len(out.violations)
        obs = {}
        vi = len(observations)
        observations.append(obs)
        got = check_area(out, sub, case, grid, area, rng, info, tag + (" (after a rejected request)" if rejected else ""),
                         limits, obs, flags)
        if fam == "trapezoidal" and got is not None and not case.get("modified_basis"):
            compare_with_trapezoid_model(out, sub, case, area, got[0], got[1], flags, tag)
            if not all(flags):
                # the statement's wording: boundary-off == boundary-on minus the points on the global boundary
                on = grid_factory(case, True)
                on.setCurrentArea(area.start.copy(), area.end.copy(), list(area.level))
                p_on, w_on = on.get_points_and_weights()
                keep = []
                for pt, wv in zip(p_on, np.asarray(w_on, dtype=float).reshape(-1)):
                    pt = tuple(float(c) for c in pt)
                    if any((not flags[k]) and ((area.touch_a[k] and pt[k] == area.start[k])
                                               or (area.touch_b[k] and pt[k] == area.end[k])) for k in range(d)):
                        continue
                    keep.append(pt + (float(wv),))
                off = [tuple(float(c) for c in pt) + (float(wv),) for pt, wv in zip(got[0], got[1])]
                midpoint = any(s.startswith(sub + "/points/level0-one-sided") for s, _ in out.violations[nviol:])
                if not midpoint:        # (that deviation is already reported with its own cause)
                    # both are tensor grids: lexicographic order pairs them; coordinates may differ in the last bit
                    # ((s+e)/2 versus linspace), so compare with TOL_MODEL instead of bitwise
                    keep.sort()
                    off.sort()
                    scale = np.concatenate([np.abs(area.start) + np.abs(area.end), [area.volume]])
                    if len(keep) != len(off):
                        out.bad("%s/on-off/point-sets-differ" % sub, "%s: %d points with boundary flags %s, %d boundary=True points "
                                "off the global boundary; start=%s end=%s level=%s"
                                % (tag, len(off), list(flags), len(keep), area.start.tolist(), area.end.tolist(), area.level))
                    elif len(off):
                        diff = np.abs(np.array(off) - np.array(keep)) / scale
                        if diff[:, :d].max() > TOL_MODEL:
                            out.bad("%s/on-off/point-sets-differ" % sub, "%s: start=%s end=%s level=%s"
                                    % (tag, area.start.tolist(), area.end.tolist(), area.level))
                        elif diff[:, d].max() > TOL_MODEL:
                            out.bad("%s/on-off/remaining-weight-changed" % sub, "%s: start=%s end=%s level=%s"
                                    % (tag, area.start.tolist(), area.end.tolist(), area.level))
        if state["reused"] and obs:
            # one object, public state changed / requests repeated: it must answer exactly like a new object that was
            # constructed with the flags now in force and gets this one request
            fresh = fresh_grid(grid_factory, case, flags)
            fresh.setCurrentArea(area.start.copy(), area.end.copy(), list(area.level))
            fp, fw = fresh.get_points_and_weights()
            fp = [tuple(float(c) for c in pt) for pt in fp]
            fw = np.asarray(fw, dtype=float).reshape(-1)
            fa = [int(x) for x in fresh.levelToNumPoints(list(area.level))]
            what = None
            if obs["announced"] != fa:
                what = "announced-numbers"
            elif obs["points"] != fp:
                what = "points"
            elif not np.array_equal(obs["weights"], fw):
                what = "weights"
            if what:
                out.bad("%s/state/%s-%s-differ-from-fresh-grid/reused-object" % (sub, fam, what),
                        "%s: start=%s end=%s level=%s flags in force %s: announced %s (fresh object %s), %d points (fresh %d), "
                        "first points %s (fresh %s), first weights %s (fresh %s), get_boundaries()=%s; done to the object "
                        "before: %s"
                        % (tag, area.start.tolist(), area.end.tolist(), area.level, list(flags), obs["announced"], fa,
                           len(obs["points"]), len(fp), obs["points"][:3], fp[:3], obs["weights"][:3].tolist(),
                           fw[:3].tolist(), [bool(x) for x in grid.get_boundaries()], history[-6:]))
        if rejected and reference is not None:
            # the object must behave exactly like a fresh one that only got the valid requests
            ref_sigs, ref_obs = reference
            ro = ref_obs[vi] if vi < len(ref_obs) else {}
            if obs and ro:
                what = None
                if obs["announced"] != ro["announced"]:
                    what = "announced-numbers"
                elif obs["points"] != ro["points"]:
                    what = "points"
                elif not np.array_equal(obs["weights"], ro["weights"]):
                    what = "weights"
                if what:
                    out.bad("%s/state/%s-%s-differ-from-fresh-grid/after-a-rejected-request" % (sub, fam, what),
                            "%s: start=%s end=%s level=%s boundary=%s: announced %s (fresh object %s), %d points (fresh %d), "
                            "first points %s (fresh %s), get_boundaries()=%s; invalid requests issued before: %s"
                            % (tag, area.start.tolist(), area.end.tolist(), area.level, list(flags), obs["announced"],
                               ro["announced"], len(obs["points"]), len(ro["points"]), obs["points"][:3], ro["points"][:3],
                               [bool(x) for x in grid.get_boundaries()], invalid))
            # a clause that fails here but not on the fresh object is caused by the rejected request
            for j in range(nviol, len(out.violations)):
                sig, msg = out.violations[j]
                if sig not in ref_sigs and not sig.endswith("/after-a-rejected-request"):
                    out.violations[j] = (sig + "/after-a-rejected-request", msg)
        history.append("request(start=%s, end=%s, level=%s)" % (area.start.tolist(), area.end.tolist(), area.level))
        return obs

    def set_flags(values, form):
        arg = np.array(values, dtype=bool) if form == "array" else [bool(x) for x in values]
        grid.set_boundaries(arg)
        history.append("set_boundaries(%s)" % [bool(x) for x in values])

    for i, spec in enumerate(case["areas"]):
        area = Area(case, spec)
        tag = "area %d" % i
        for inv in invalid:
            if inv["before"] % len(case["areas"]) == i:
                exc = issue_invalid_request(grid, case, area, inv)
                history.append("rejected request" if exc else "accepted odd request")
                if exc is None:
                    out.cls("invalid-request-silently-accepted:" + inv["kind"])
                else:
                    state["rejected"] = True
                    out.cls("rejected-request-in-between", "rejected-kind=" + inv["kind"],
                            "rejected-call=" + ("setCurrentArea" if inv["call"] == "set" else "integrate"))
        visit(area, tag, cur)
        # public state changes between two requests for this same area and level vector on this same object
        for e in flagprog:
            if e["after"] % len(case["areas"]) != i:
                continue
            state["reused"] = True
            kind = e["to"]
            old = list(cur)
            new = target_flags(e, cur, d)
            saved = grid.get_boundaries()                   # (what the library's own sequence keeps for the restore)
            if kind == "same":
                set_flags(saved, e.get("form", "array"))    # get_boundaries / set_boundaries round trip
            elif kind != "repeat":
                set_flags(new, e.get("form", "list"))
            cur = new
            changed = [k for k in range(d) if old[k] != new[k]]
            out.cls("reused-object", "reused-object:to=" + kind)
            if kind not in ("repeat",) and e.get("form") == "array":
                out.cls("set_boundaries-argument=numpy-bool-array")
            if changed:
                out.cls("flags-really-changed")
                if len(set(new)) > 1:
                    out.cls("flags-differ-per-dimension")
                if any(area.touch_a[k] or area.touch_b[k] for k in changed):
                    # (the only situation in which the rule of the area differs between the two flag settings)
                    out.cls("same-area-re-requested-after-a-flag-change-in-a-dimension-that-touches-the-border")
                    if e.get("between") is None:
                        out.cls("...and-no-other-area-in-between")
            if e.get("between") is not None:
                out.cls("reused-object:other-area-requested-in-between")
                visit(Area(case, e["between"]), tag + " [other area under flags %s]" % new, cur, limits_again)
            visit(area, tag + " [same area and level vector again, flags %s -> %s]" % (old, new), cur, limits_again)
            if e.get("restore"):
                out.cls("reused-object:flags-restored-and-same-area-requested-a-third-time")
                if kind != "repeat":
                    set_flags(saved, "array")
                cur = old
                visit(area, tag + " [same area and level vector, flags restored to %s]" % old, cur, limits_again)
        # classes / non-triviality
        where = "whole-domain" if not area.proper else ("touching-boundary" if area.touches else "interior")
        out.cls(where)
        for k in range(d):
            if ((not area.touch_a[k] and abs(area.start[k] - case["a"][k]) <= NEAR)
                    or (not area.touch_b[k] and abs(area.end[k] - case["b"][k]) <= NEAR)):
                out.cls("sub-box-edge-within-1e-8-of-border-but-not-on-it")
        if max(len(pth) for pth in spec["path"]) >= 4:
            out.cls("bisection-depth>=4")
        upper_only = [k for k in range(d) if area.touch_b[k] and not area.touch_a[k]]
        if upper_only:
            out.cls("sub-box-touches-upper-border-only")
        if 1 in area.level:
            out.cls("level==1")
        if any(area.level[k] == 1 for k in upper_only):
            out.cls("upper-border-only-with-level==1-in-that-dimension")
        if 0 in area.level:
            out.cls("level0")
        if max(area.level) >= 4:
            out.cls("level4(n=17,QR path for hierarchical)")
        if d >= 2 and area.proper and area.nonconstant:
            if sub != "trap_boundary" or area.touches:
                nt = True
    out.cls("family=%s%s" % (fam, "" if fam in ("gauss",) else ("/boundary" if case["boundary"] else "/no-boundary")))
    if fam in HIER:
        out.cls("p=%d" % case["p"])
    if case.get("old_integrator"):
        out.cls("old-integrator")
    if case.get("modified_basis"):
        out.cls("modified_basis=True")
    if case.get("normalize"):
        out.cls("normalize=True")
    out.cls("d=%d" % d, "areas=%d" % len(case["areas"]))
    for sc in sorted(set(case.get("scale", [1.0] * d))):
        out.cls("domain-scale=%.3g" % sc)
    if len(set(case.get("scale", [1.0]))) > 1:
        out.cls("domain-scale-differs-per-dimension")
    out.nontrivial = nt
    info["max_dim"] = d
    out.info = info
    return out, observations


def run_unsupported(case, sub):
    """option combinations the unchanged library refuses (assertion in the constructor or at the first request): they
    are counted, not generated; nothing is asserted (if one starts to be accepted the counter shows it)"""
    out = Outcome()
    try:
        grid = make_grid(case)
        area = Area(case, case["areas"][0])
        grid.setCurrentArea(area.start.copy(), area.end.copy(), list(area.level))
        grid.get_points_and_weights()
    except Exception as ex:  # contract: "raises on an unsupported combination"
        out.cls("unsupported-option-combination-raises", "unsupported:%s:%s" % (case["expect_unsupported"], type(ex).__name__))
    else:
        out.cls("unsupported-option-combination-now-accepted:%s" % case["expect_unsupported"])
    return out


def run_generic(case, sub, grid_factory=make_grid):
    if case.get("expect_unsupported"):
        return run_unsupported(case, sub)
    invalid = case.get("invalid") or []
    if not invalid:
        return run_sequence(case, sub, grid_factory, [])[0]
    ref_out, ref_obs = run_sequence(case, sub, grid_factory, [])
    ref_sigs = set(sig for sig, _ in ref_out.violations)
    out, _ = run_sequence(case, sub, grid_factory, invalid, (ref_sigs, ref_obs))
    have = set(sig for sig, _ in out.violations)
    for sig, msg in ref_out.violations:          # (cannot happen unless the rejected request hides a violation)
        if sig not in have:
            out.bad(sig, msg)
    return out


def run_nodal(case):
    return run_generic(case, "nodal")


def run_hier(case):
    return run_generic(case, "hier")


def run_trap_boundary(case):
    return run_generic(case, "trap_boundary")


# ----------------------------------------------------------------------------------------------------------------
# generators
# ----------------------------------------------------------------------------------------------------------------
A_CHOICES = [0.0, -1.0, 2.0, 0.5, -0.3, 1.7, 10.0, -2.5, 4.0]
LEN_CHOICES = [1.0, 2.0, 3.0, 0.5, 0.7, 0.1, 6.25, 1.3]
# units of the domain: [a,b] (offset included) is multiplied by s, e.g. [4,7]*1e-7 = visible light in metres
SCALES = [2.0 ** -30, 1e-9, 1e-7, 1e-6, 1e-3, 1e3, 2.0 ** 20]
NEAR = 1e-8         # class counter: a sub-box edge closer than this (absolutely) to a domain border without lying on it


def _path():
    return st.sampled_from([0, 1, 1, 2, 2, 3, 3, 4, 5]).flatmap(
        lambda n: st.lists(st.integers(0, 1), min_size=n, max_size=n))


def _scales(d):
    """per dimension unit: half of the cases ordinary units, a quarter one unusual unit for all dimensions, a quarter
    independent units per dimension"""
    one = st.sampled_from(SCALES)
    return st.sampled_from(["unit", "unit", "same", "mixed"]).flatmap(
        lambda kind: st.just([1.0] * d) if kind == "unit"
        else one.map(lambda x: [x] * d) if kind == "same"
        else st.lists(st.sampled_from(SCALES + [1.0]), min_size=d, max_size=d))



def _cap_levels(lv, npoints, cap):
    lv = list(lv)
    while np.prod([npoints(l) for l in lv]) > cap:
        k = int(np.argmax(lv))
        lv[k] -= 1
    return lv


def case_strategy(families, tier, boundary_choices, point_cap, switchable=(), prog_odds=(False, False, False, True),
                  force_prog_for_boundary_on=False):
    """switchable: families whose boundary flags are really changed on the re-used object (the others only get
    repeated requests / set_boundaries calls that leave the flags as they are)"""
    @st.composite
    def s(draw):
        fam = draw(st.sampled_from(families))
        d = draw(st.sampled_from([1, 2, 2, 3]))
        scale = draw(_scales(d))
        a = [draw(st.sampled_from(A_CHOICES)) for _ in range(d)]
        b = [a[k] + draw(st.sampled_from(LEN_CHOICES)) for k in range(d)]
        a = [a[k] * scale[k] for k in range(d)]
        b = [b[k] * scale[k] for k in range(d)]
        p = 0
        if fam == "lagrange":
            p = draw(st.integers(1, 6))
        elif fam == "bspline":
            p = draw(st.sampled_from([1, 3, 5]))
        boundary, modified = True, False
        if fam in boundary_choices:
            boundary = draw(st.sampled_from(boundary_choices[fam]))
            if isinstance(boundary, str):           # "modified": boundary=False with modified_basis=True
                boundary, modified = False, True
        maxl = 3 if fam in ("leja", "gauss") else 4
        nareas = draw(st.sampled_from([1, 1, 2, 3]))
        areas = []
        levels = st.sampled_from([0] + [l for l in range(1, maxl + 1) for _ in range(2)])
        # B-spline with boundary off: half of the cases stay on the whole domain (the only areas behind F-C08-b)
        whole = fam == "bspline" and not boundary and draw(st.sampled_from([True, True, True, False] if modified
                                                                           else [True, False]))

        def one_area():
            path = [[] if whole else draw(_path()) for _ in range(d)]
            lv = [draw(levels) for _ in range(d)]
            if fam == "leja":
                lv = _cap_levels(lv, lambda l: 2 if l == 0 else 2 * l + 1, point_cap)
            else:
                lv = _cap_levels(lv, lambda l: 2 ** l + 1, point_cap)
            return dict(path=path, lv=lv)

        for _ in range(nareas):
            areas.append(one_area())
        case = dict(family=fam, p=p, boundary=boundary, d=d, a=a, b=b, scale=scale, areas=areas,
                    rng=draw(st.integers(0, 2 ** 31 - 1)))
        if fam in NODAL and fam != "gauss":
            case["old_integrator"] = draw(st.sampled_from([False, False, False, True]))
        if modified:
            case["modified_basis"] = True
        if fam == "gauss" and draw(st.sampled_from([False, False, True])):
            case["normalize"] = True
        # error paths: in a third of the cases one or two requests that the library rejects by raising are issued
        # on the same object before one of the valid areas
        if draw(st.sampled_from([False, False, True])):
            kinds = [k for k in INVALID_KINDS if k not in INVALID_NOT_FOR.get(fam, ())]
            case["invalid"] = [dict(before=draw(st.integers(0, nareas - 1)), kind=draw(st.sampled_from(kinds)),
                                    dim=draw(st.integers(0, 5)), call=draw(st.sampled_from(["set", "int"])))
                               for _ in range(draw(st.sampled_from([1, 1, 2])))]
        # one object, public state changed between two requests for the same area and level vector: the area is
        # requested again after set_boundaries(...) (really other flags / the same flags / the get_boundaries() round
        # trip) or without any call in between, optionally with another area in between and with the flags restored
        # (the library's own save / switch on / set area / restore sequence) and the area requested a third time
        force = force_prog_for_boundary_on and boundary is True
        if force or draw(st.sampled_from(list(prog_odds))):
            real = fam in switchable and not modified
            if real:
                kinds = ["flip", "flip", "flip", "on", "off", "same", "repeat"] + (["mixed", "mixed"] if d >= 2 else [])
            else:
                kinds = ["same", "repeat"] + (["on"] if boundary and fam != "gauss" else [])
            prog = []
            for j in range(draw(st.sampled_from([1, 1, 2]))):
                kind = draw(st.sampled_from(kinds))
                if force and j == 0:
                    kind = draw(st.sampled_from(["off", "flip"] + (["mixed"] if d >= 2 else [])))
                e = dict(after=draw(st.integers(0, nareas - 1)), to=kind, restore=draw(st.sampled_from([False, True])),
                         form=draw(st.sampled_from(["list", "array"])))
                if kind == "mixed":
                    e["mixed"] = [draw(st.sampled_from([False, True])) for _ in range(d)]
                if draw(st.sampled_from([False, False, True])):
                    e["between"] = one_area()
                prog.append(e)
            case["flagprog"] = prog
        return case
    return s()


def nodal_strategy(tier):
    return case_strategy(list(NODAL), tier, {"trapezoidal": [True, True, "modified"]}, 2500 if tier == "quick" else 3000,
                         prog_odds=(False, False, False, False, False, True))


def hier_strategy(tier):
    return case_strategy(["lagrange", "bspline", "bspline"], tier, {"bspline": [True, True, False, "modified"]},
                         700 if tier == "quick" else 1500, switchable=("bspline",),
                         prog_odds=(False, False, False, False, True))


def trap_boundary_strategy(tier):
    return case_strategy(["trapezoidal"], tier, {"trapezoidal": [False, False, False, "modified", "modified", True]},
                         2500 if tier == "quick" else 5000, switchable=("trapezoidal",), prog_odds=(False, True),
                         force_prog_for_boundary_on=True)


def nodal_fixed():
    # whole domain, every family, isotropic - the configurations the repository's own tests look at
    res = []
    for fam in NODAL:
        res.append(dict(family=fam, p=0, boundary=True, d=2, a=[0.0, 0.0], b=[1.0, 1.0],
                        areas=[dict(path=[[], []], lv=[2, 2])], rng=1))
    # modified basis, sub-box touching the upper border only, level 1 (and the mirrored one)
    res.append(dict(family="trapezoidal", p=0, boundary=False, modified_basis=True, d=2, a=[1.0, 0.0], b=[3.0, 1.0],
                    areas=[dict(path=[[1], [0]], lv=[1, 1]), dict(path=[[0, 1], []], lv=[2, 1])], rng=6))
    for fam in ("simpson", "leja", "gauss"):
        res.append(dict(family=fam, p=0, boundary=True, d=2, a=[0.0, 1.0], b=[1.0, 3.0],
                        areas=[dict(path=[[0], []], lv=[2, 1])], rng=12,
                        flagprog=[dict(after=0, to="same", restore=True, form="array"),
                                  dict(after=0, to="repeat", restore=False, between=dict(path=[[1], [0]], lv=[1, 2]))]))
    base = dict(p=0, d=1, a=[0.0], b=[1.0], areas=[dict(path=[[]], lv=[2])], rng=0)
    res.append(dict(base, family="trapezoidal", boundary=True, modified_basis=True,
                    expect_unsupported="TrapezoidalGrid(boundary=True, modified_basis=True)"))
    res.append(dict(base, family="trapezoidal", boundary=True, integrator="foo",
                    expect_unsupported="TrapezoidalGrid(integrator='foo')"))
    res.append(dict(base, family="leja", boundary=True, integrator="foo", expect_unsupported="LejaGrid(integrator='foo')"))
    return res


def hier_fixed():
    res = []
    for fam, p in (("lagrange", 2), ("lagrange", 3), ("bspline", 3), ("bspline", 1)):
        res.append(dict(family=fam, p=p, boundary=True, d=2, a=[-1.0, 0.0], b=[2.0, 1.0],
                        areas=[dict(path=[[], [1, 0]], lv=[2, 3]), dict(path=[[0], [1]], lv=[1, 0])], rng=2))
    res.append(dict(family="bspline", p=3, boundary=False, d=2, a=[0.0, 0.0], b=[1.0, 1.0],
                    areas=[dict(path=[[], []], lv=[3, 2])], rng=3))
    res.append(dict(family="bspline", p=3, boundary=False, modified_basis=True, d=2, a=[1.0, 0.0], b=[3.0, 1.0],
                    areas=[dict(path=[[], []], lv=[3, 2]), dict(path=[[], []], lv=[1, 3])], rng=7))
    res.append(dict(family="bspline", p=3, boundary=True, d=2, a=[0.0, 0.0], b=[1.0, 2.0],
                    areas=[dict(path=[[], []], lv=[3, 2])], rng=11,
                    flagprog=[dict(after=0, to="off", restore=True, form="list")]))
    base = dict(d=1, a=[0.0], b=[1.0], areas=[dict(path=[[]], lv=[2])], rng=0)
    res.append(dict(base, family="bspline", p=2, boundary=True, expect_unsupported="BSplineGrid(p=2) (even degree)"))
    res.append(dict(base, family="bspline", p=3, boundary=True, modified_basis=True,
                    expect_unsupported="BSplineGrid(boundary=True, modified_basis=True)"))
    res.append(dict(base, family="lagrange", p=3, boundary=True, modified_basis=True,
                    expect_unsupported="LagrangeGrid(boundary=True, modified_basis=True)"))
    res.append(dict(base, family="lagrange", p=3, boundary=False, modified_basis=True,
                    expect_unsupported="LagrangeGrid(boundary=False, modified_basis=True)"))
    return res


def trap_fixed():
    return [dict(family="trapezoidal", p=0, boundary=False, d=2, a=[0.0, -1.0], b=[1.0, 2.0],
                 areas=[dict(path=[[0], [1, 1]], lv=[2, 1]), dict(path=[[1, 0], []], lv=[1, 3])], rng=4),
            dict(family="trapezoidal", p=0, boundary=False, modified_basis=True, d=1, a=[1.0], b=[3.0],
                 areas=[dict(path=[[1]], lv=[1]), dict(path=[[0]], lv=[1]), dict(path=[[]], lv=[2])], rng=8),
            # one object: the library's own sequence (save the flags, switch the boundary points on, set the area,
            # restore) on a boundary=False grid, and boundary points switched off on a boundary=True grid
            dict(family="trapezoidal", p=0, boundary=False, d=2, a=[-1.0, 0.5], b=[2.0, 3.0],
                 areas=[dict(path=[[1], [0]], lv=[3, 1]), dict(path=[[0], []], lv=[2, 3])], rng=9,
                 flagprog=[dict(after=0, to="on", restore=True, form="list"),
                           dict(after=1, to="mixed", mixed=[False, True], restore=False, form="array")]),
            dict(family="trapezoidal", p=0, boundary=True, d=2, a=[-1.0, 0.5], b=[2.0, 3.0],
                 areas=[dict(path=[[0], []], lv=[2, 3])], rng=10,
                 flagprog=[dict(after=0, to="off", restore=True, form="list",
                                between=dict(path=[[1], [1]], lv=[1, 2]))])]


# ----------------------------------------------------------------------------------------------------------------
# oracle self test
# ----------------------------------------------------------------------------------------------------------------
def selftest():
    # closed forms of the reference side
    assert abs(exact_factor_integral(2, 0, 0, 0.5) - 0.5 * 2.0 / 3.0) < 1e-15      # int t^2 over a box of length 1
    assert abs(exact_factor_integral(1, 0, 0, 3.0)) < 1e-15
    assert abs(exact_factor_integral(0, 1, 1, 1.0) - 1.0 / 3.0) < 1e-15             # int (1-t^2)/4 over [-1,1]
    x, w = trapezoid_model_1d(0.0, 1.0, 2, True, False)
    assert x.tolist() == [0.25, 0.5, 0.75, 1.0] and w.tolist() == [0.25, 0.25, 0.25, 0.125]
    assert [nominal_degree(f, 3, 5) for f in ("trapezoidal", "simpson", "cc", "leja", "gauss", "lagrange", "bspline")] \
        == [1, 3, 4, 4, 9, 3, 3]
    assert sub_interval(0.0, 1.0, [0, 1]) == (0.25, 0.5, False, False)
    # Simpson on [0,2] with 3 points must be 1/3, 4/3, 1/3 and pass; 2D anisotropic sub-box must pass
    case = dict(family="simpson", p=0, boundary=True, d=1, a=[0.0], b=[2.0], areas=[dict(path=[[]], lv=[1])], rng=0)
    g = make_grid(case)
    g.setCurrentArea(np.array([0.0]), np.array([2.0]), [1])
    assert np.allclose(g.get_weights(), [1 / 3.0, 4 / 3.0, 1 / 3.0], rtol=0, atol=1e-15)
    for c, run in ((case, run_nodal), (trap_fixed()[0], run_trap_boundary), (hier_fixed()[0], run_hier)):
        o = run(c)
        assert not o.violations, o.violations

    # the oracle must reject corrupted grids: (1) one weight off by 1e-6, (2) a point moved out of the box,
    # (3) a point kept on the global boundary with boundary=False, (4) a Lagrange basis integral off by 1e-6
    from sparseSpACE import Grid as G

    def corrupt(kind):
        def factory(case, boundary=None):
            g = make_grid(case, boundary)
            orig = g.setCurrentArea

            def patched(start, end, levelvec):
                orig(start, end, levelvec)
                if kind == "weight":
                    g.weights = [np.array(w, dtype=float) for w in g.weights]
                    g.weights[-1][1] *= 1.0 + 1e-6
                elif kind == "point":
                    g.coordinate_array = [np.array(c, dtype=float) for c in g.coordinate_array]
                    g.coordinate_array[0][0] -= 1e-6
                elif kind == "keep" and boundary is None:
                    # emulate a grid that forgot to drop the point on the global boundary in dimension 0
                    on = make_grid(case, True)
                    on.setCurrentArea(start, end, levelvec)
                    g.coordinate_array[0] = on.coordinate_array[0]
                    g.weights[0] = on.weights[0]
                    g.grids[0].boundary = True
            g.setCurrentArea = patched
            return g
        return factory

    c2 = dict(family="cc", p=0, boundary=True, d=2, a=[0.0, 1.0], b=[1.0, 3.0],
              areas=[dict(path=[[1], [0, 1]], lv=[2, 3])], rng=5)
    assert not run_generic(c2, "nodal").violations
    sigs = [s for s, _ in run_generic(c2, "nodal", corrupt("weight")).violations]
    assert any("/wsum/" in s for s in sigs) and any("/exactness/" in s for s in sigs), sigs
    sigs = [s for s, _ in run_generic(c2, "nodal", corrupt("point")).violations]
    assert any("/outside/" in s for s in sigs), sigs
    c3 = trap_fixed()[0]
    sigs = [s for s, _ in run_generic(c3, "trap_boundary", corrupt("keep")).violations]
    assert sigs, "kept global boundary point not rejected"
    c4 = hier_fixed()[0]
    sigs = [s for s, _ in run_generic(c4, "hier", corrupt("weight")).violations]
    assert any("/exactness/" in s or "/wsum/" in s for s in sigs), sigs

    # (5) an object that keeps a switched-on 1D boundary flag after a rejected request must be flagged, and only with
    # the /after-a-rejected-request suffix; the same case on the real library must be clean
    def sticky(case, boundary=None):
        g = make_grid(case, boundary)
        orig = g.setCurrentArea

        def patched(start, end, levelvec):
            try:
                orig(start, end, levelvec)
            except Exception:
                g.grids[-1].boundary = True
                raise
        g.setCurrentArea = patched
        return g

    # (6) modified basis: the extrapolated weight on the wrong one of two points keeps count, containment and the sum
    # of the weights but must fail degree-1 exactness
    def swapped(case, boundary=None):
        g = make_grid(case, boundary)
        orig = g.setCurrentArea

        def patched(start, end, levelvec):
            orig(start, end, levelvec)
            g.weights = [np.array(w[::-1], dtype=float) if len(w) == 2 else w for w in g.weights]
        g.setCurrentArea = patched
        return g

    c6 = trap_fixed()[1]
    assert not run_generic(c6, "trap_boundary").violations
    sigs = [s for s, _ in run_generic(c6, "trap_boundary", swapped).violations]
    assert any("/exactness/trapezoidal-modified-deg1" in s for s in sigs) and not any("/wsum/" in s for s in sigs), sigs

    # (7) a re-used object whose set_boundaries does not reach the last dimension must be flagged (and only the
    # requests after the flag change); the same flag program on the real library must be clean, also with
    # per-dimension flags, the get_boundaries round trip, an area in between and the restore
    def deaf(case, boundary=None):
        g = make_grid(case, boundary)
        orig = g.set_boundaries

        def patched(boundaries):
            b = [bool(x) for x in boundaries]
            orig(b[:-1] + [bool(g.grids[-1].boundary)])
        g.set_boundaries = patched
        return g

    c7 = dict(trap_fixed()[0])
    c7["flagprog"] = [dict(after=0, to="flip", restore=True, form="list"),
                      dict(after=1, to="mixed", mixed=[True, False], restore=False, form="array",
                           between=dict(path=[[1], [0]], lv=[1, 2])),
                      dict(after=1, to="same", restore=True, form="array"), dict(after=1, to="repeat", restore=False)]
    o = run_generic(c7, "trap_boundary")
    assert not o.violations, o.violations
    assert "same-area-re-requested-after-a-flag-change-in-a-dimension-that-touches-the-border" in o.classes
    sigs = [s for s, _ in run_generic(c7, "trap_boundary", deaf).violations]
    assert any(s.endswith("/reused-object") for s in sigs) and any("/count/" in s or "/points/" in s for s in sigs), sigs
    c8 = dict(trap_fixed()[0], boundary=True)
    c8["flagprog"] = [dict(after=0, to="off", restore=True, form="array")]
    assert not run_generic(c8, "trap_boundary").violations
    assert run_generic(c8, "trap_boundary", deaf).violations
    assert fresh_grid(make_grid, c8, [True, False]).get_boundaries().tolist() == [True, False]
    assert fresh_grid(make_grid, c8, [False, False]).get_boundaries().tolist() == [False, False]

    c5 = dict(trap_fixed()[0])
    c5["invalid"] = [dict(before=1, kind="none", dim=1, call="int")]
    assert not run_generic(c5, "trap_boundary").violations
    sigs = [s for s, _ in run_generic(c5, "trap_boundary", sticky).violations]
    assert sigs and all(s.endswith("/after-a-rejected-request") for s in sigs), sigs
    assert any("/state/" in s for s in sigs), sigs


SUBS = [
    Sub("nodal", nodal_strategy, run_nodal, dict(quick=3600, thorough=20000),
        budget_s=dict(quick=24, thorough=240), fixed_cases=nodal_fixed),
    Sub("hier", hier_strategy, run_hier, dict(quick=1800, thorough=20000),
        budget_s=dict(quick=24, thorough=240), fixed_cases=hier_fixed),
    Sub("trap_boundary", trap_boundary_strategy, run_trap_boundary, dict(quick=2400, thorough=24000),
        budget_s=dict(quick=12, thorough=120), fixed_cases=trap_fixed),
]
