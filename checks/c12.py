"""C12 — Function evaluation is cache-transparent and matches its analytic integral.

Sub-checks
  history           call histories (single / batch / eval_vectorized 2-D,3-D / reset / deactivate) per built-in class
  integral          getAnalyticSolutionIntegral vs tensor Gauss-Legendre quadrature of eval() (split at kinks)
  integral_generic  the scipy dblquad/tplquad fallback of the base class (and of FunctionUQ/UQ2) vs the same reference
"""
import contextlib
import io
import itertools
import math
import warnings

import numpy as np
from hypothesis import strategies as st

from vlib.core import Outcome, Sub, guarded

PROPERTY = "C12"
RULE = ("history: one built-in Function class (all 33 concrete classes of Function.py, composites wrap drawn inner classes) with "
        "drawn parameters, d=1..4, a pool of 1..8 points (tuples of Python floats; coordinates drawn from the class's "
        "kink/border values, a dyadic grid of its domain, or arbitrary floats) and 1..25 operations from {single call "
        "(tuple/list/ndarray), batch call (0..8 points incl. duplicates and points seen before; tuples/lists/ndarray), "
        "eval_vectorized on a 2-D or 3-D array, reset_dictionary, deactivate_caching}, each applied to a drawn object of the graph: "
        "the outermost function or one of the Function objects it wraps (wrappers may be nested, one inner object may be shared "
        "by two wrappers as in FunctionConcatenate([h, FunctionPower(h,k)])); a third of the single-point results is modified in "
        "place by the harness afterwards (as callers do); after every operation every object is asked again for every point it "
        "has cached and, with caching off, for every point evaluated at it before; every returned value is compared "
        "with eval() of a fresh instance built from the same parameters, and get_f_dict_size() with a set model after "
        "every operation - with caching on and off; deactivate_caching may occur at any position, also twice. Non-trivial = at least one batch that contained a point which was in the "
        "cache at that time, and at least one reset that was followed by a further evaluation. integral: class with an "
        "analytic integral (FunctionGeneralizedNormal excluded), parameters scaled to a drawn box (width*coefficient "
        "bounded so that two Gauss rules agree to 1e-11), kinks/borders placed left of / on the boundary of / inside / "
        "right of the box; the box corners are handed over as tuple, list, float ndarray or int ndarray (drawn independently "
        "for start and end), FunctionCompose has 2-3 parts in drawn order (half of them with a discontinuous/kinked part first), "
        "FunctionShift (list- or ndarray-valued translation) wraps a leaf or such a composition; non-trivial = d>=2 with at least two different widths, or a kink strictly inside the box; "
        "cases whose reference is not resolved are counted (class ref-unresolved) and not asserted. Both subs: the first function "
        "with number containers gets them in a drawn container form in half of the cases and the caller modifies them in place "
        "after the construction in a quarter (see assumptions). Distinct = distinct case dict.")
ASSUMPTIONS = [
    "constructor arguments (coefficients, midpoints/borders, means/std, norms) are handed over as list, tuple, float64 ndarray, "
    "non-contiguous ndarray view or int ndarray (integer-valued only; integer-valued coefficients also as Python ints) in half of "
    "the cases; in a quarter the caller modifies ITS containers in place right after the construction (before any evaluation, "
    "so that no cached value predates the change).  Required then: the object is ONE function - for every modified container "
    "either the values at construction (unchanged tree: FunctionLinear/Multilinear/Polynomial, GenzCornerPeak copy; GenzProductPeak "
    "copies lists) or the current values (GenzOszillatory/Discontinious/C0/Gaussian, FunctionGeneralizedNormal, FunctionPolysPCE "
    "norms, GenzProductPeak ndarrays keep a reference), the same choice for point evaluation (all paths), cache and analytic "
    "integral; observed per family in the class counters '<class>.<argument>[<form>]:copy|reference'.  The library must not "
    "modify the caller's containers.  FunctionUQNormal(2) mean/std: forms only (they define where the inner object is evaluated)",
    "evaluation counter (get_f_dict_size) and point/value record (get_f_dict_points/values) = distinct points passed to "
    "__call__ since the last reset_dictionary(), independent of deactivate_caching() (which may occur at any position of the "
    "history, repeatedly); direct eval/eval_vectorized calls are not counted; for an object wrapped by "
    "another one the points the wrapper evaluates it at count as well (wrappers that use inner.eval instead of inner(...): "
    "FunctionShift, FunctionCompose, FunctionUQNormal2 bypass the inner cache)",
    "a single-point result belongs to the caller (callers modify it in place: value -= ... in spatiallyAdaptiveSingleDimension2) "
    "and must not alias the cache; the rows of a batch result ARE stored in the cache on the unchanged tree (pre-existing, no "
    "library caller modifies them) - batch results are therefore not modified by the harness",
    "FunctionCompose parts have a scalar/ndarray-valued eval (it multiplies eval() by a float): FunctionPower (list-valued eval) "
    "is not generated as a direct part of a composition",
    "a single point returns shape (output_length,), a batch (n, output_length); eval_vectorized results are reshaped to "
    "(*array.shape[:-1], output_length) exactly as GridOperation.get_point_values_component_grid does before comparison",
    "points lie in the class's domain (positive orthant for GenzCornerPeak/FunctionExpVar, unit cube for FunctionG*, "
    "(0,1) for FunctionInverseTransform); coefficients are floats, non-zero / positive where the formula divides by them or "
    "takes their square root; zero coefficients only for GenzOszillatory (handled by the source) and the linear families",
    "getAnalyticSolutionIntegral, __call__ and eval_vectorized must leave the containers passed in unchanged (the statement's "
    "'integral over any box' / 'same values' are read for the caller's box and points); the reference always uses a snapshot",
    "FunctionShift is used with translations (the only coordinate map for which its integral forwarding is meaningful)",
    "FunctionG/FunctionGShifted/FunctionDiagonalDiscont integrals only on the unit cube (asserted by the source)",
    "FunctionUQNormal/FunctionUQNormal2.getAnalyticSolutionIntegral are weighted expectations, not integrals of eval: not compared",
    "FunctionGeneralizedNormal integral excluded (marked incorrect in the source)",
    "integral tolerance 1e-9*int|f| (generic scipy fallback 5e-6*int|f|; scipy's own nested tolerance gives up to 1e-8 on the unchanged tree), only when Gauss rules with n-4 and n nodes agree to 1e-11*int|f|",
]

SUB_H, SUB_I, SUB_G = "history", "integral", "integral_generic"

# ----------------------------------------------------------------------------------------------------------------
# named callables for the classes that wrap user code (JSON cases carry only the name)
# ----------------------------------------------------------------------------------------------------------------
def _add(values):
    """plain left-to-right float addition. (The builtin sum() of Python >= 3.12 is compensated for sequences of exact
    floats but not for numpy scalars, so a user function written with sum() is not a function of the point alone.)"""
    acc = 0.0
    for v in values:
        acc = acc + float(v)
    return acc


SCALAR_FN = {
    "sinsum": lambda x: math.sin(_add((k + 1) * v for k, v in enumerate(x))),      # not symmetric in the coordinates
    "quad": lambda x: 1.0 + _add((k + 1) * v * v for k, v in enumerate(x)),
    "expm": lambda x: math.exp(-0.5 * _add(v / (k + 1) for k, v in enumerate(x))),
    "absum": lambda x: abs(_add(x) - 0.5),
}
VECTOR_FN = {
    "vec3": (3, lambda x: [_add(x), 2.0 * x[0], 1.0]),
    "vec2": (2, lambda x: np.array([x[0], math.cos(x[-1])])),
}
POLY_FN = {
    "one": lambda *x: 1.0,
    "x0": lambda *x: x[0],
    "x0xl": lambda *x: x[0] * x[-1],
    "leg2": lambda *x: 1.5 * x[0] ** 2 - 0.5,
}
LAMBDA_1D = {
    "cos": (lambda x: math.cos(x[0]), lambda s: math.sin(s[0])),
    "poly": (lambda x: x[0] ** 3 - x[0], lambda s: s[0] ** 4 / 4 - s[0] ** 2 / 2),
    "exp": (lambda x: math.exp(0.5 * x[0]), lambda s: 2.0 * math.exp(0.5 * s[0])),
}

DOMAIN_BOX = {"any": (-1.0, 2.0), "pos": (0.0, 2.0), "unit": (0.0, 1.0), "beam": (0.5, 3.0), "open01": (0.03125, 0.96875)}
_ORDER = {"any": 0, "pos": 1, "unit": 2}

# leaf classes: name -> (domain kind, allowed dims or None, output length or None(=1))
LEAF = {
    "ConstantValue": ("any", None), "FunctionDiagonalDiscont": ("unit", None), "FunctionLinear": ("any", None),
    "FunctionMultilinear": ("any", None), "FunctionPolynomial": ("any", None), "GenzCornerPeak": ("pos", None),
    "GenzProductPeak": ("any", None), "GenzOszillatory": ("any", None), "GenzDiscontinious": ("any", None),
    "GenzDiscontinious2": ("any", None), "GenzC0": ("any", None), "GenzGaussian": ("any", None),
    "FunctionExpVar": ("pos", None), "FunctionGeneralizedNormal": ("any", None), "FunctionG": ("unit", None),
    "FunctionGShifted": ("unit", None), "CustomFunction": ("any", None), "FunctionCustom": ("any", None),
    "Polynomial1d": ("any", (1,)), "LambdaFunction": ("any", (1,)), "FunctionUQ2": ("any", (2,)),
    "FunctionUQ": ("any", (3,)), "FunctionUQShifted": ("any", (3,)), "FunctionCantileverBeamD": ("beam", (3,)),
}
COMPOSITE = ["FunctionShift", "FunctionUQNormal", "FunctionUQNormal2", "FunctionUQWeighted", "FunctionCompose",
             "FunctionPower", "FunctionPolysPCE", "FunctionInverseTransform", "FunctionConcatenate"]
# inner classes usable inside composites (scalar output, usable through __call__, any dimension)
INNER_SCALAR = ["ConstantValue", "FunctionDiagonalDiscont", "FunctionLinear", "FunctionMultilinear", "FunctionPolynomial",
                "GenzCornerPeak", "GenzProductPeak", "GenzOszillatory", "GenzDiscontinious", "GenzC0", "GenzGaussian",
                "FunctionExpVar", "FunctionGeneralizedNormal", "FunctionG"]
INNER_ANY = INNER_SCALAR + ["CustomFunction", "FunctionCustom"]
# classes that offer an analytic integral over arbitrary boxes of their domain
ANALYTIC_LEAF = ["ConstantValue", "FunctionLinear", "FunctionMultilinear", "FunctionPolynomial", "GenzCornerPeak",
                 "GenzProductPeak", "GenzOszillatory", "GenzDiscontinious", "GenzDiscontinious2", "GenzC0", "GenzGaussian",
                 "FunctionExpVar"]
ANALYTIC_INNER = [c for c in ANALYTIC_LEAF if c not in ("GenzDiscontinious2",)]
UNIT_BOX_ONLY = ["FunctionG", "FunctionGShifted", "FunctionDiagonalDiscont"]


# ----------------------------------------------------------------------------------------------------------------
# building instances from a JSON spec
# ----------------------------------------------------------------------------------------------------------------
def build(spec, nodes=None):
    """A fresh instance (fresh inner instances as well) from a JSON spec.  ``nodes`` collects the object graph in pre-order:
    dict(spec, inst, kids=[node indices of the wrapped Function objects, in constructor order]).  An inner spec
    {"cls": "same", "tag": t} stands for the object already built for the node that carries "tag": t (one inner function
    object shared by two wrappers, e.g. FunctionConcatenate([h, FunctionPower(h, 2)]))."""
    if nodes is None:
        nodes = []
    me = dict(spec=spec, inst=None, kids=[], containers={})
    nodes.append(me)
    forms = spec.get("forms", {})

    def P(name, default="list"):
        """the constructor argument ``name`` in the container form drawn for this case; the harness keeps the container"""
        cont = _container(spec[name], forms.get(name, default))
        me["containers"][name] = [cont, list(spec[name])]
        return cont

    def sub(s):
        if s["cls"] == "same":
            j = [k for k, nd in enumerate(nodes) if nd["spec"].get("tag") == s["tag"]][0]
            me["kids"].append(j)
            return nodes[j]["inst"]
        me["kids"].append(len(nodes))
        return build(s, nodes)
    me["inst"] = _construct(spec, sub, P)
    # the caller goes on using ITS containers: scaled / overwritten in place right after the construction
    for name, how in sorted(spec.get("mutate", {}).items()):
        cont, expected = me["containers"][name]
        if not isinstance(cont, tuple):
            new = _mutated_values(expected, how)
            for k in range(len(cont)):
                cont[k] = new[k]
            me["containers"][name][1] = new
    return me["inst"]


def _container(values, form):
    """list / tuple / float64 ndarray / non-contiguous view into a larger ndarray / int ndarray (integer-valued only)"""
    if form == "tuple":
        return tuple(values)
    if form == "iarray" and all(float(v).is_integer() for v in values):
        return np.array([int(v) for v in values], dtype=int)
    if form == "view":
        big = np.full(2 * len(values) + 1, np.nan)
        view = big[1::2]
        view[:] = values
        return view
    if form in ("farray", "iarray"):
        return np.array(values, dtype=float)
    return list(values)


def _mutated_values(values, how):
    kind, x = how
    return [v * x for v in values] if kind == "scale" else [v + x for v in values]


# constructor arguments that are containers of numbers, per class
PARAMS = {"FunctionLinear": ["coeffs"], "FunctionMultilinear": ["coeffs"], "GenzCornerPeak": ["coeffs"], "FunctionPolynomial": ["coeffs"],
          "GenzProductPeak": ["coeffs", "midpoint"], "GenzOszillatory": ["coeffs"], "GenzDiscontinious": ["coeffs", "border"],
          "GenzDiscontinious2": ["coeffs", "border"], "GenzC0": ["coeffs", "midpoint"], "GenzGaussian": ["midpoint", "coeffs"],
          "FunctionGeneralizedNormal": ["midpoint", "coeffs"], "Polynomial1d": ["coeffs"], "FunctionUQNormal": ["mean", "std"],
          "FunctionUQNormal2": ["mean", "std"], "FunctionPolysPCE": ["norms"]}


def _children(spec):
    c = spec["cls"]
    if c in ("FunctionCompose",):
        return [p[0] for p in spec["parts"]]
    if c == "FunctionConcatenate":
        return list(spec["parts"])
    return [spec[k] for k in ("inner", "weight") if k in spec]


def variants(spec):
    """Plain specs (list arguments, no caller modification) of the functions the object may consistently be: for every
    container the caller modified after the construction either the values at construction (the library took a copy) or
    the current values (the library kept a reference).  Without a caller modification: the one plain spec."""
    import copy
    import itertools as it
    base = copy.deepcopy(spec)
    targets = []

    def walk(s):
        s.pop("forms", None)
        mut = s.pop("mutate", None)
        if mut:
            for name, how in sorted(mut.items()):
                targets.append((s, name, list(s[name]), _mutated_values(s[name], how)))
        for ch in _children(s):
            walk(ch)
    walk(base)

    def floats(s):       # the reference functions get float parameters (integer-valued ones are a form of passing them)
        for name in PARAMS.get(s["cls"], []):
            s[name] = [float(v) for v in s[name]]
        for ch in _children(s):
            floats(ch)
    out = []
    for choice in it.product((0, 1), repeat=len(targets)):
        for (s, name, old, new), pick in zip(targets, choice):
            s[name] = new if pick else old
        floats(base)
        out.append(copy.deepcopy(base))
    return out


def build_graph(spec):
    nodes = []
    build(spec, nodes)
    return nodes


def _construct(spec, build, P):
    import sparseSpACE.Function as F
    c = spec["cls"]
    if c == "ConstantValue":
        return F.ConstantValue(spec["value"])
    if c in ("FunctionDiagonalDiscont", "FunctionExpVar", "FunctionUQ", "FunctionUQShifted", "FunctionUQ2"):
        return getattr(F, c)()
    if c in ("FunctionLinear", "FunctionMultilinear", "GenzCornerPeak"):
        return getattr(F, c)(P("coeffs"))
    if c == "FunctionPolynomial":
        return F.FunctionPolynomial(P("coeffs"), spec["degree"])
    if c == "GenzProductPeak":
        return F.GenzProductPeak(P("coeffs"), P("midpoint"))
    if c == "GenzOszillatory":
        return F.GenzOszillatory(P("coeffs"), spec["offset"])
    if c in ("GenzDiscontinious", "GenzDiscontinious2"):
        return getattr(F, c)(coeffs=P("coeffs"), border=P("border"))
    if c == "GenzC0":
        return F.GenzC0(coeffs=P("coeffs"), midpoint=P("midpoint"))
    if c == "GenzGaussian":
        return F.GenzGaussian(P("midpoint", "tuple"), P("coeffs", "tuple"))
    if c == "FunctionGeneralizedNormal":
        return F.FunctionGeneralizedNormal(P("midpoint"), P("coeffs"), spec["exp"])
    if c in ("FunctionG", "FunctionGShifted"):
        return getattr(F, c)(spec["d"])
    if c == "FunctionCantileverBeamD":
        return F.FunctionCantileverBeamD(spec["width"], spec["thickness"])
    if c == "Polynomial1d":
        return F.Polynomial1d(P("coeffs"))
    if c == "LambdaFunction":
        fn, anti = LAMBDA_1D[spec["fn"]]
        return F.LambdaFunction(fn, anti)
    if c == "CustomFunction":
        if spec["fn"] in VECTOR_FN:
            n, fn = VECTOR_FN[spec["fn"]]
            return F.CustomFunction(fn, output_length=n)
        return F.CustomFunction(SCALAR_FN[spec["fn"]])
    if c == "FunctionCustom":
        if "fns" in spec:
            return F.FunctionCustom([SCALAR_FN[n] for n in spec["fns"]])
        if spec["fn"] in VECTOR_FN:
            n, fn = VECTOR_FN[spec["fn"]]
            return F.FunctionCustom(fn, output_dim=n)
        return F.FunctionCustom(SCALAR_FN[spec["fn"]])
    if c == "FunctionShift":
        t = list(spec["t"])
        if spec.get("shift_form") == "array":      # a coordinate map written with numpy: returns float ndarrays
            tarr = np.array(t, dtype=float)
            return F.FunctionShift(build(spec["inner"]), lambda x, tarr=tarr: np.asarray(x, dtype=float) + tarr)
        return F.FunctionShift(build(spec["inner"]), lambda x, t=t: [x[k] + t[k] for k in range(len(t))])
    if c in ("FunctionUQNormal", "FunctionUQNormal2"):
        return getattr(F, c)(build(spec["inner"]), P("mean"), P("std"), list(spec["a"]), list(spec["b"]))
    if c == "FunctionUQWeighted":
        return F.FunctionUQWeighted(build(spec["inner"]), build(spec["weight"]))
    if c == "FunctionCompose":
        return F.FunctionCompose([(build(s), fac) for s, fac in spec["parts"]])
    if c == "FunctionPower":
        return F.FunctionPower(build(spec["inner"]), spec["exponent"])
    if c == "FunctionPolysPCE":
        return F.FunctionPolysPCE(build(spec["inner"]), [POLY_FN[n] for n in spec["polys"]], P("norms"))
    if c == "FunctionInverseTransform":
        import scipy.stats
        dists = [getattr(scipy.stats, kind)(loc=loc, scale=scale) for kind, loc, scale in spec["dists"]]
        return F.FunctionInverseTransform(build(spec["inner"]), dists)
    if c == "FunctionConcatenate":
        return F.FunctionConcatenate([build(s) for s in spec["parts"]])
    raise ValueError("unknown class %r" % c)


def kinks(spec, centres=False):
    """Per-dimension coordinates at which the function (or a derivative) jumps — written from the class definitions,
    used for the point pool (history, there with the centres of the smooth peaks as well) and to split the reference
    quadrature (integral)."""
    c, d = spec["cls"], spec["d"]
    res = [[] for _ in range(d)]
    if c in ("GenzDiscontinious", "GenzDiscontinious2"):
        res = [[v] for v in spec["border"]]
    elif c == "GenzC0" or (centres and c in ("GenzProductPeak", "GenzGaussian", "FunctionGeneralizedNormal")):
        res = [[v] for v in spec["midpoint"]]
    elif c == "FunctionG":
        res = [[0.5] for _ in range(d)]
    elif c == "FunctionGShifted":
        res = [[0.3, 0.8] for _ in range(d)]
    elif c in ("FunctionUQ", "FunctionUQ2"):
        res[1] = [0.0]
    elif c == "FunctionUQShifted":
        res[1] = [-0.221413]
    elif c == "FunctionShift":
        res = [[v - spec["t"][k] for v in ks] for k, ks in enumerate(kinks(spec["inner"], centres))]
    elif c == "FunctionUQNormal":
        res = [[(v - spec["mean"][k]) / spec["std"][k] for v in ks] for k, ks in enumerate(kinks(spec["inner"], centres))]
    elif c in ("FunctionUQNormal2", "FunctionPower", "FunctionPolysPCE"):
        res = kinks(spec["inner"], centres)
    elif c == "FunctionUQWeighted":
        a, b = kinks(spec["inner"], centres), kinks(spec["weight"], centres)
        res = [a[k] + b[k] for k in range(d)]
    elif c in ("FunctionCompose", "FunctionConcatenate"):
        for part in spec["parts"]:
            s = part[0] if c == "FunctionCompose" else part
            for k, ks in enumerate(kinks(s, centres)):
                res[k] = res[k] + ks
    return res


# ----------------------------------------------------------------------------------------------------------------
# reference quadrature (independent of the library): tensor Gauss-Legendre on the pieces between break points
# ----------------------------------------------------------------------------------------------------------------
_GL = {}


def _gl(n):
    if n not in _GL:
        _GL[n] = np.polynomial.legendre.leggauss(n)
    return _GL[n]


def gauss_reference(f, a, b, breaks, n, absf=None):
    """(integral of f, integral of |f|) over the box [a,b]; f: tuple -> scalar or sequence; both are 1-D arrays."""
    d = len(a)
    xs, ws = [], []
    x0, w0 = _gl(n)
    for k in range(d):
        cuts = sorted(set([float(a[k]), float(b[k])] + [float(v) for v in breaks[k] if a[k] < v < b[k]]))
        X, W = [], []
        for lo, hi in zip(cuts[:-1], cuts[1:]):
            X.append(0.5 * (hi - lo) * x0 + 0.5 * (hi + lo))
            W.append(0.5 * (hi - lo) * w0)
        xs.append(np.concatenate(X))
        ws.append(np.concatenate(W))
    grids = np.meshgrid(*xs, indexing="ij")
    pts = np.stack([g.ravel() for g in grids], axis=-1)
    wt = np.ones(1)
    for k in range(d):
        wt = np.multiply.outer(wt, ws[k])
    wt = wt.ravel()
    vals = [np.atleast_1d(np.asarray(f(tuple(p)), dtype=float)).ravel() for p in pts.tolist()]
    V = np.asarray(vals, dtype=float)
    if absf is None:
        return wt @ V, wt @ np.abs(V)
    A = np.asarray([np.atleast_1d(np.asarray(absf(tuple(p)), dtype=float)).ravel() for p in pts.tolist()], dtype=float)
    return wt @ V, wt @ A


def abs_eval(inst):
    """x -> sum of the absolute contributions of the leaf functions of a composition (FunctionCompose parts may cancel, so
    the integral of |f| would understate the rounding scale of the analytic sum); None for a leaf"""
    name = type(inst).__name__
    if name == "FunctionCompose":
        parts = [(abs_eval(g) or (lambda x, g=g: np.abs(_as_vec(g.eval(x)))), abs(fac)) for g, fac in inst.functions]
        return lambda x: sum(fac * g(x) for g, fac in parts)
    if name == "FunctionShift":
        g = abs_eval(inst.function)
        return None if g is None else (lambda x: g(inst.shift(x)))
    return None


def reference_integral(f, a, b, breaks, budget=50000, n=None, absf=None):
    """Two Gauss rules (n-4 and n nodes per piece and dimension). Returns (value, scale, spread, n)."""
    d = len(a)
    pieces = 1
    for k in range(d):
        pieces *= 1 + len(set(v for v in breaks[k] if a[k] < v < b[k]))
    if n is None:
        n = int((budget / pieces) ** (1.0 / d))
        n = max(7, min(64 if d == 1 else 40, n))
    fine, scale = gauss_reference(f, a, b, breaks, n, absf)
    coarse, _ = gauss_reference(f, a, b, breaks, n - 4)
    return fine, scale, np.abs(fine - coarse), n


def breaks(spec, a, b):
    """kinks plus, for FunctionExpVar boxes that touch 0 (x^(1/d) has an unbounded derivative there), points graded
    geometrically towards 0 so that every piece but the (negligible) last one is resolved."""
    c, d = spec["cls"], spec["d"]
    br = [list(x) for x in kinks(spec)]
    if c == "FunctionExpVar" and d >= 2:
        for k in range(d):
            if a[k] == 0.0:
                br[k] += [b[k] * 8.0 ** (-j) for j in range(1, 9)]
    elif c == "FunctionShift":
        t = spec["t"]
        inner = breaks(spec["inner"], [a[k] + t[k] for k in range(d)], [b[k] + t[k] for k in range(d)])
        br = [[v - t[k] for v in inner[k]] for k in range(d)]
    elif c == "FunctionCompose":
        br = [[] for _ in range(d)]
        for part, _fac in spec["parts"]:
            for k, ks in enumerate(breaks(part, a, b)):
                br[k] += ks
    return br


def jump_reference(f, d, N):
    """Reference for FunctionDiagonalDiscont on the unit cube: midpoint rule (N cells) in the first d-1 coordinates, in the
    last coordinate the measure of {f = 1} is found by bisection on eval (f is a decreasing step there)."""
    h = 1.0 / N
    mids = [(i + 0.5) * h for i in range(N)]
    total = 0.0
    for xp in itertools.product(mids, repeat=d - 1):
        one = lambda t: float(np.asarray(f(xp + (t,))).ravel()[0]) == 1.0
        if not one(0.0):
            m = 0.0
        elif one(1.0):
            m = 1.0
        else:
            lo, hi = 0.0, 1.0
            for _ in range(52):
                mid = 0.5 * (lo + hi)
                if one(mid):
                    lo = mid
                else:
                    hi = mid
            m = 0.5 * (lo + hi)
        total += m * h ** (d - 1)
    return total


# ----------------------------------------------------------------------------------------------------------------
# history sub-check
# ----------------------------------------------------------------------------------------------------------------
def _as_vec(v):
    return np.atleast_1d(np.asarray(v, dtype=float)).ravel()


def _quiet(fn, *a):
    with contextlib.redirect_stdout(io.StringIO()):
        return fn(*a)


# how a wrapper class reaches the Function objects it wraps: through their __call__ (cache of the inner object is used
# and filled) or through their eval (cache bypassed); read off the eval methods in Function.py
CALL_STYLE = {"FunctionUQNormal": "call", "FunctionUQWeighted": "call", "FunctionPower": "call", "FunctionPolysPCE": "call",
              "FunctionInverseTransform": "call", "FunctionConcatenate": "call",
              "FunctionShift": "eval", "FunctionUQNormal2": "eval", "FunctionCompose": "eval"}


def _map_point(spec, p):
    """the point at which a wrapper evaluates its inner function(s), same floating-point operations as the wrapper"""
    c = spec["cls"]
    if c == "FunctionShift":
        return tuple(float(p[k] + spec["t"][k]) for k in range(len(p)))
    if c == "FunctionUQNormal":
        return tuple(float(v) for v in np.asarray(p) * np.asarray(spec["std"]) + np.asarray(spec["mean"]))
    if c == "FunctionInverseTransform":
        import scipy.stats
        return tuple(float(getattr(scipy.stats, kind)(loc=loc, scale=scale).ppf(p[k]))
                     for k, (kind, loc, scale) in enumerate(spec["dists"]))
    return tuple(p)


def _check_containers(out, sub, nodes):
    """the library must never modify the caller's parameter containers (expected = values after the caller's own change)"""
    for nd in nodes:
        for name, (cont, expected) in sorted(nd.get("containers", {}).items()):
            now = [float(v) for v in cont]
            if len(now) != len(expected) or any(a != float(b) for a, b in zip(now, expected)):
                out.bad("%s/parameters-modified-by-library/%s-%s" % (sub, nd["spec"]["cls"], name),
                        "%s: the caller's container for %r was changed by the library: %s -> %s" % (nd["spec"]["cls"], name, expected, now))


def _decorated(spec):
    """the spec node (if any) whose constructor arguments are passed in drawn container forms"""
    if spec.get("forms"):
        return spec
    for ch in _children(spec):
        r = _decorated(ch)
        if r is not None:
            return r
    return None


def _form_classes(out, spec, ncand, alive):
    node = _decorated(spec)
    if node is None:
        return
    for name, form in sorted(node["forms"].items()):
        out.cls("argument-form=" + form)
    if node.get("mutate"):
        out.cls("caller-modified-its-parameters")
        if ncand > 1 and len(alive) == 1:
            # which of the two consistent behaviours the unchanged tree shows for this family (copy / reference)
            bits = [(alive[0] >> k) & 1 for k in range(len(node["mutate"]))][::-1]
            tuples = [isinstance(_container(node[nm], node["forms"].get(nm, "list")), tuple) for nm in sorted(node["mutate"])]
            for (nm, bit, tup) in zip(sorted(node["mutate"]), bits, tuples):
                if not tup:
                    out.cls("%s.%s[%s]:%s" % (node["cls"], nm, node["forms"].get(nm, "list"), "reference" if bit else "copy"))


def _strip(spec, keep_forms):
    import copy
    s = copy.deepcopy(spec)

    def walk(x):
        x.pop("mutate", None)
        if not keep_forms:
            x.pop("forms", None)
        for ch in _children(x):
            walk(ch)
    walk(s)
    return s


def _attribute(case, out, rerun):
    """cause of a violation in a case with drawn argument forms: the same case is re-run without the caller's modification and
    with plain list arguments; a signature that disappears gets the suffix of what made it appear"""
    node = _decorated(case["spec"])
    if not out.violations or node is None:
        return out
    no_mut = set(sig for sig, _ in rerun(dict(case, spec=_strip(case["spec"], True))).violations) if node.get("mutate") else None
    plain = set(sig for sig, _ in rerun(dict(case, spec=_strip(case["spec"], False))).violations)
    forms = "+".join(sorted(set(f for f in node["forms"].values() if f != "list"))) or "list"

    def responsible_form(sig):
        """the single argument whose container form alone reproduces the violation (else all non-list forms of the case)"""
        import copy
        for name, form in sorted(node["forms"].items()):
            if form == "list":
                continue
            sp = _strip(case["spec"], True)
            _decorated(sp)["forms"] = {name: form}
            if sig in set(x for x, _ in rerun(dict(case, spec=sp)).violations):
                return form
        return forms
    res = []
    for sig, msg in out.violations:
        if sig in plain:
            res.append((sig, msg))
        elif no_mut is not None and sig not in no_mut:
            res.append((sig + "/after-caller-modified-its-parameters", msg + " | forms %s, caller modification %s" % (node["forms"], node["mutate"])))
        else:
            res.append((sig + "/argument-form=" + responsible_form(sig), msg + " | forms %s" % node["forms"]))
    out.violations = res
    return out


def _raising_class(exc):
    """class of the Function object in whose method (innermost frame inside Function.py) the exception was raised"""
    tb, cls = exc.__traceback__, None
    while tb is not None:
        fr = tb.tb_frame
        if fr.f_code.co_filename.replace("\\", "/").endswith("sparseSpACE/Function.py") and "self" in fr.f_locals:
            cls = type(fr.f_locals["self"]).__name__
        tb = tb.tb_next
    return cls


def _history_classified(case, factory):
    try:
        return _run_history(case, factory)
    except ValueError as e:
        if not _int_power(e):
            raise
        out = Outcome()
        out.cls(case["spec"]["cls"], "integer-typed-parameters")
        out.bad(SUB_H + "/integer-arguments/%s-evaluation-raises-integers-to-negative-integer-powers" % _raising_class(e),
                "%s; spec %s" % (e, case["spec"]))
        return out


def run_history(case, factory=build_graph):
    with np.errstate(all="ignore"):      # overflow to inf inside a test function is a value like any other here
        out = _history_classified(case, factory)

        def rerun(c):
            o = Outcome()
            r = guarded(SUB_H, o, _history_classified, c, factory)
            return r if r is not None else o
        return _attribute(case, out, rerun)


def _run_history(case, factory):
    out = Outcome()
    spec = case["spec"]
    cname = spec["cls"]
    d = spec["d"]
    out.cls(cname, "d=%d" % d)
    nodes = factory(spec)
    N = len(nodes)
    names = [nd["spec"]["cls"] for nd in nodes]
    # points of every object: the pool mapped along the (first) path from the top object
    npts = len(case["points"])
    node_pts = [None] * N
    node_pts[0] = [tuple(float(x) for x in p) for p in case["points"]]
    for i, nd in enumerate(nodes):
        for k in nd["kids"]:
            if node_pts[k] is None:
                node_pts[k] = [_map_point(nd["spec"], p) for p in node_pts[i]]
    ols = [nd["inst"].output_length() for nd in nodes]
    # reference: eval on the corresponding object of a fresh graph per object and point (no cache involved anywhere); one
    # reference set per function the object may consistently be (see variants(): more than one only after the caller has
    # modified its own parameter containers); every observation prunes the candidates, none left = inconsistent object
    cands = variants(spec)
    refs_c, below_c = [], []
    for cand in cands:
        refs = []
        for i in range(N):
            refs.append([])
            for p in node_pts[i]:
                r = _as_vec(build_graph(cand)[i]["inst"].eval(p))
                if len(r) != ols[i]:
                    out.bad("%s/output-length/%s-eval-returns-%d-values-but-declares-%d" % (SUB_H, names[i], len(r), ols[i]),
                            "%s: eval%s returns %d values, output_length() is %d: no call path can return (n, output_length)"
                            % (names[i], p, len(r), ols[i]))
                    return out
                refs[i].append(r)
        # absolute floor of the comparison: GenzOszillatory (cos near a zero) and wrappers that combine cached inner values
        # (a value cached by the vectorised path may differ by an ulp from the scalar one): 1e-12 * largest value underneath
        below = [[1.0 if names[i] == "GenzOszillatory" else 0.0 for _ in range(npts)] for i in range(N)]
        for i in reversed(range(N)):
            for k in nodes[i]["kids"]:
                for j in range(npts):
                    below[i][j] = max(below[i][j], below[k][j], float(np.max(np.abs(refs[k][j]))) if np.all(np.isfinite(refs[k][j])) else 0.0)
        refs_c.append(refs)
        below_c.append(below)
    alive = list(range(len(cands)))
    refs = refs_c[0]
    state = dict(maxdev=0.0)

    def differs(got, want, floor):
        # tolerance: 1e-12 relative (rounding between the scalar and the numpy implementation is <= a few ulp; measured
        # maximum on the unchanged tree 3.6e-15); identical non-finite values (overflow in both paths) agree
        with np.errstate(invalid="ignore"):
            ok = (got == want) | (np.isnan(got) & np.isnan(want)) | (np.abs(got - want) <= 1e-12 * np.abs(want) + 1e-12 * floor)
            r = np.abs(got - want) / (np.abs(want) + floor + 1e-300)
        if np.all(ok):
            r = r[np.isfinite(r)]
            if r.size:
                state["maxdev"] = max(state["maxdev"], float(np.max(r)))
        return not np.all(ok)

    def mismatch(got, sel):
        """True if the observed values agree with no candidate that explained all earlier observations"""
        ok = [c for c in alive if not differs(got, *sel(c))]
        if ok:
            alive[:] = ok
        return not ok

    if not all(np.all(np.isfinite(r)) for rr in refs for r in rr):
        out.cls("non-finite-value")
    if N > 1:
        out.cls("objects=%d" % min(N, 4))
    allkids = [k for nd in nodes for k in nd["kids"]]
    if len(allkids) != len(set(allkids)):
        out.cls("shared-inner-object")
    if any(nodes[k]["kids"] for k in allkids):
        out.cls("nested-wrapper")

    def cause(i, involved, default, got=None):
        # FunctionDiagonalDiscont.eval used the builtin sum(): compensated for a tuple of floats, plain for an ndarray row.
        # Only when the observed values are indicator values (the other side of the jump), not any deviation at such a point.
        if names[i] == "FunctionDiagonalDiscont" and any((sum(q) < 1) != (_add(q) < 1) for q in involved) \
                and got is not None and np.all(np.isin(np.asarray(got, float), (0.0, 1.0))):
            return "FunctionDiagonalDiscont-builtin-sum-rounds-differently-for-float-tuple-and-ndarray-row"
        return default

    # model: per object the distinct points passed to __call__ since its last reset (directly or by a wrapper)
    seen = [set() for _ in range(N)]
    caching = [True] * N
    # (the record does not depend on the cache switch: "distinct points evaluated since the last reset"; the switch only
    # decides whether a recorded point is looked up or evaluated again)
    index_of = [dict((p, j) for j, p in enumerate(node_pts[i])) for i in range(N)]

    def model_eval(i, j):
        style = CALL_STYLE.get(names[i])
        for k in nodes[i]["kids"]:
            if style == "call":
                model_single(k, j)
            else:
                model_eval(k, j)

    def model_single(i, j):
        p = node_pts[i][j]
        if caching[i] and p in seen[i]:
            return
        model_eval(i, j)
        seen[i].add(p)

    def do_single(i, j, form, tag, recheck=False, mutate=False):
        f, p, want = nodes[i]["inst"], node_pts[i][j], refs_c[alive[0]][i][j]
        arg = p if form == "t" else (list(p) if form == "l" else np.array(p))
        was_cached = caching[i] and p in seen[i]
        got = f(arg)
        if [float(x) for x in arg] != list(p):
            out.bad(SUB_H + "/arguments-mutated/single", "%s: the point passed in was modified: %s -> %s" % (tag, p, list(arg)))
        if np.shape(got) != (ols[i],):
            out.bad(SUB_H + "/shape/single", "%s: shape %s, expected (%d,)" % (tag, np.shape(got), ols[i]))
        elif mismatch(np.asarray(got, float), lambda c: (refs_c[c][i][j], below_c[c][i][j])):
            kind = ("recheck-" if recheck else "single-") + ("cached" if was_cached else ("fresh" if caching[i] else "uncached"))
            out.bad(SUB_H + "/value/" + cause(i, [p], kind, got), "%s: %s%s=%s, fresh eval=%s"
                    % (tag, names[i], p, np.asarray(got).tolist(), want.tolist()))
        elif mutate and isinstance(got, np.ndarray) and got.flags.writeable:
            got *= 2.0          # what callers do (value -= ... in spatiallyAdaptiveSingleDimension2): must not reach the cache
            got += 1.0
            out.cls("returned-single-value-modified-by-caller")
        model_single(i, j)
        if was_cached and not recheck:
            out.cls("single-cache-hit")

    last_kind = [None] * N
    hit_batch = resets = evals_after_reset = inner_ops = 0
    pending_reset = [False] * N

    def evaluated(i):
        nonlocal evals_after_reset
        if pending_reset[i]:
            evals_after_reset += 1
            pending_reset[i] = False

    for n_op, op in enumerate(case["ops"]):
        kind = op[0]
        tag = "op %d %s" % (n_op, op)
        sel = {"single": 3, "batch": 3, "vec2": 2, "vec3": 2, "reset": 1, "deact": 1}[kind]
        i = (op[sel] if len(op) > sel else 0) % N
        f = nodes[i]["inst"]
        pts, ol = node_pts[i], ols[i]
        tag += " on object %d (%s)" % (i, names[i])
        if i:
            inner_ops += 1
        if kind == "single":
            j = op[1] % npts
            p_was_recorded = pts[j] in seen[i]
            do_single(i, j, op[2], tag, mutate=len(op) > 4 and bool(op[4]))
            if not caching[i]:
                out.cls("evaluation-after-deactivate")
                if p_was_recorded:
                    out.cls("recorded-point-evaluated-again-after-deactivate")
            evaluated(i)
        elif kind == "batch":
            idx = [j % npts for j in op[1]]
            plist = [pts[j] for j in idx]
            if op[2] == "t":
                arg = list(plist)
            elif op[2] == "l":
                arg = [list(p) for p in plist]
            else:
                arg = np.array(plist, dtype=float).reshape(len(plist), d)
            if any(p in seen[i] for p in plist):
                hit_batch += 1
            if not caching[i] and plist:
                out.cls("evaluation-after-deactivate", "batch-after-deactivate")
            got = _quiet(f, arg)
            if len(arg) != len(plist) or any([float(x) for x in q] != list(p) for q, p in zip(arg, plist)):
                out.bad(SUB_H + "/arguments-mutated/batch", "%s: the batch passed in was modified: %s -> %s"
                        % (tag, plist, [list(q) for q in arg]))
            if np.shape(got) != (len(plist), ol):
                out.bad(SUB_H + "/shape/batch%s" % ("-empty" if not plist else ""),
                        "%s: shape %s, expected (%d, %d)" % (tag, np.shape(got), len(plist), ol))
            elif plist:
                want = np.array([refs_c[alive[0]][i][j] for j in idx])
                if mismatch(np.asarray(got, float), lambda c: (np.array([refs_c[c][i][j] for j in idx]),
                                                               np.array([[below_c[c][i][j]] for j in idx]))):
                    out.bad(SUB_H + "/value/" + cause(i, plist, "batch", got), "%s: got %s, fresh eval %s" % (tag, np.asarray(got).tolist(), want.tolist()))
            if not plist:
                out.cls("empty-batch")
            for j in idx:
                model_eval(i, j)
            seen[i].update(plist)        # recorded whatever the cache switch says
            if plist:
                evaluated(i)
        elif kind in ("vec2", "vec3"):
            if kind == "vec2":
                idx = np.array([j % npts for j in op[1]], dtype=int)
            else:
                idx = np.array([[j % npts for j in row] for row in op[1]], dtype=int)
            arr = np.array(pts, dtype=float).reshape(npts, d)[idx]
            want = np.array(refs_c[alive[0]][i])[idx]
            snapshot = arr.copy()
            got = np.asarray(f.eval_vectorized(arr))
            if arr.shape != snapshot.shape or not np.array_equal(arr, snapshot):
                out.bad(SUB_H + "/arguments-mutated/%s" % kind, "%s: eval_vectorized modified the array passed in" % tag)
            if got.size != want.size:
                out.bad(SUB_H + "/shape/%s" % kind, "%s: %d values for array of shape %s and output length %d"
                        % (tag, got.size, arr.shape, ol))
            else:
                got = got.reshape(want.shape)       # what the callers in GridOperation do
                if mismatch(got.astype(float), lambda c: (np.array(refs_c[c][i])[idx], np.array(below_c[c][i])[idx][..., None])):
                    out.bad(SUB_H + "/value/" + cause(i, [pts[j] for j in idx.ravel()], kind, got), "%s: eval_vectorized %s, fresh eval %s" % (tag, got.tolist(), want.tolist()))
            for j in idx.ravel():
                model_eval(i, int(j))
        elif kind == "reset":
            if last_kind[i] == "deact":
                out.cls("reset-directly-after-deactivate")
            if not caching[i]:
                out.cls("reset-while-caching-off")
            f.reset_dictionary()
            seen[i].clear()
            resets += 1
            pending_reset[i] = True
        elif kind == "deact":
            out.cls("deactivated", "deactivate-after-evaluations" if seen[i] else "deactivate-with-empty-record")
            if not caching[i]:
                out.cls("deactivate-twice")
            if last_kind[i] == "reset":
                out.cls("deactivate-directly-after-reset")
            f.deactivate_caching()
            caching[i] = False
        else:
            raise ValueError(kind)
        last_kind[i] = kind
        # after every operation: the counters of all objects; then every live object is asked again for every point it has
        # cached (a cache hit: exposes a cache entry corrupted by somebody else) and, while its caching is off, for every point
        # the harness evaluated at it before (repeated evaluation); then the counters once more
        def counters(when):
            # evaluation counter and point / value record of every object == the distinct points evaluated since its last
            # reset, whatever the state of its cache switch
            for k in range(N):
                g = nodes[k]["inst"]
                n = g.get_f_dict_size()
                if n != len(seen[k]):
                    out.bad(SUB_H + "/counter/differs-from-distinct-points" + ("" if caching[k] else "-caching-off"),
                            "%s %s: object %d (%s).get_f_dict_size()=%d, distinct points evaluated since its last reset=%d (caching %s)"
                            % (when, tag, k, names[k], n, len(seen[k]), "on" if caching[k] else "off"))
                    return
                rec_p, rec_v = g.get_f_dict_points(), g.get_f_dict_values()
                if len(rec_p) != n or len(rec_v) != n or set(tuple(float(x) for x in q) for q in rec_p) != seen[k]:
                    out.bad(SUB_H + "/point-record/differs-from-distinct-points" + ("" if caching[k] else "-caching-off"),
                            "%s %s: object %d (%s).get_f_dict_points()=%s, evaluated since its last reset: %s"
                            % (when, tag, k, names[k], rec_p, sorted(seen[k])))
                    return
                for q, v in zip(rec_p, rec_v):
                    j = index_of[k][tuple(float(x) for x in q)]
                    if mismatch(_as_vec(v), lambda c: (refs_c[c][k][j], below_c[c][k][j])):
                        out.bad(SUB_H + "/value-record/differs-from-fresh-eval",
                                "%s %s: object %d (%s) records %s at %s, fresh eval %s"
                                % (when, tag, k, names[k], v, q, refs_c[alive[0]][k][j].tolist()))
                        return
        counters("after")
        if not out.violations:
            for k in range(N):
                for j in range(npts):
                    if node_pts[k][j] in seen[k]:
                        do_single(k, j, "t", "re-check after %s: object %d" % (tag, k), recheck=True)
            counters("after the re-check following")
        if out.violations:
            break
    _check_containers(out, SUB_H, nodes)
    _form_classes(out, spec, len(cands), alive)
    out.nontrivial = hit_batch >= 1 and evals_after_reset >= 1
    if hit_batch:
        out.cls("batch-with-seen-point")
    if resets:
        out.cls("reset")
    if inner_ops:
        out.cls("op-on-inner-object")
    out.info = dict(max_rel_dev_vs_eval=state["maxdev"], max_ops=len(case["ops"]), max_dim=d, max_objects=N)
    return out


# ----------------------------------------------------------------------------------------------------------------
# integral sub-checks
# ----------------------------------------------------------------------------------------------------------------
def _has_inner_kink(spec, a, b):
    return any(a[k] < v < b[k] for k, ks in enumerate(kinks(spec)) for v in ks)


def _box_container(values, form):
    """the box corner as the container a caller may pass: tuple, list, float ndarray, int ndarray (integral boxes only)"""
    if form == "tuple":
        return tuple(values)
    if form == "iarray" and all(float(v).is_integer() for v in values):
        return np.array([int(v) for v in values], dtype=int)
    if form in ("farray", "iarray"):
        return np.array(values, dtype=float)
    return list(values)


def _form_name(arg):
    return type(arg).__name__ + (":" + arg.dtype.kind if isinstance(arg, np.ndarray) else "")


def _part_names(spec):
    c = spec["cls"]
    if c == "FunctionShift":
        return "FunctionShift(" + _part_names(spec["inner"]) + ")"
    if c == "FunctionCompose":       # order kept: the position of a part matters for arguments shared between the parts
        return "FunctionCompose(" + "+".join(_part_names(p[0]) for p in spec["parts"]) + ")"
    return c


def _int_power(exc):
    return isinstance(exc, ValueError) and "Integers to negative integer powers" in str(exc)


def _integral_classified(case, factory, sub, rel_tol):
    try:
        return _run_integral(case, factory, sub, rel_tol)
    except ValueError as e:
        if not _int_power(e):
            raise
        out = Outcome()
        out.cls(case["spec"]["cls"], "integer-typed-parameters")
        out.bad(sub + "/integer-arguments/%s-evaluation-raises-integers-to-negative-integer-powers" % _raising_class(e),
                "%s; spec %s" % (e, case["spec"]))
        return out


def run_integral(case, factory=None, sub=SUB_I, rel_tol=1e-9):
    out = _integral_classified(case, factory, sub, rel_tol)

    def rerun(c):
        o = Outcome()
        r = guarded(sub, o, _integral_classified, c, factory, sub, rel_tol)
        return r if r is not None else o
    return _attribute(case, out, rerun)


def _run_integral(case, factory, sub, rel_tol):
    out = Outcome()
    spec, a, b = case["spec"], [float(x) for x in case["a"]], [float(x) for x in case["b"]]
    cname, d = spec["cls"], spec["d"]
    label = cname
    if cname in ("FunctionShift", "FunctionCompose"):      # composite: the set of leaf classes involved
        leaves = sorted(set(_part_names(spec).replace("(", "+").replace(")", "").split("+")) - {"FunctionShift", "FunctionCompose"})
        label = cname + "(" + "+".join((["FunctionCompose"] if cname == "FunctionShift" and spec["inner"]["cls"] == "FunctionCompose" else []) + leaves) + ")"
    out.cls(cname, "d=%d" % d)
    nodes = build_graph(spec) if factory is None else []
    f = nodes[0]["inst"] if factory is None else factory(spec)
    # a, b are the snapshot of the box: everything below (reference, kinks) uses them, never the objects handed to the library
    arg_a, arg_b = _box_container(a, case.get("a_form", "list")), _box_container(b, case.get("b_form", "list"))
    out.cls("box=%s/%s" % (_form_name(arg_a), _form_name(arg_b)))
    with warnings.catch_warnings():
        warnings.simplefilter("ignore")
        try:
            ana = f.getAnalyticSolutionIntegral(arg_a, arg_b)
        except ValueError as e:
            if not _int_power(e):
                raise
            out.bad(sub + "/integer-arguments/%s-integral-raises-integers-to-negative-integer-powers" % cname,
                    "%s.getAnalyticSolutionIntegral(%r, %r): %s; spec %s" % (cname, arg_a, arg_b, e, spec))
            return out
    for name, arg, snap in (("start", arg_a, a), ("end", arg_b, b)):
        if [float(x) for x in arg] != snap:
            out.bad(sub + "/arguments-mutated/" + cname, "%s.getAnalyticSolutionIntegral modified its %s argument (%s): %s -> %s"
                    % (label, name, _form_name(arg), snap, [float(x) for x in arg]))
    _check_containers(out, sub, nodes)
    if ana is None:
        out.bad(sub + "/returns-none/" + cname, "%s.getAnalyticSolutionIntegral(%s,%s) returned None" % (cname, a, b))
        return out
    ana = _as_vec(ana)
    # the functions the object may consistently be (more than one only after the caller modified its parameter containers);
    # the object's own point evaluation decides which of them it is, the analytic integral must belong to the same one
    cands = variants(spec)
    alive = list(range(len(cands)))
    if cname != "FunctionDiagonalDiscont":       # (the unit-cube jump function has no parameters and no meaningful probe)
        probes = [tuple(a[k] + t * (b[k] - a[k]) for k in range(d)) for t in (0.5, 0.3125, 0.8125)]
        with np.errstate(all="ignore"):
            obs = [_as_vec(f.eval(p)) for p in probes]
            keep = []
            for c in alive:
                fc = build(cands[c])
                want = [_as_vec(fc.eval(p)) for p in probes]
                if all(o.shape == w.shape and np.all((o == w) | (np.abs(o - w) <= 1e-12 * np.abs(w) + 1e-12)) for o, w in zip(obs, want)):
                    keep.append(c)
        alive = keep
        if not alive:
            out.bad(sub + "/eval-matches-no-parameter-set/" + label,
                    "%s: eval at %s = %s agrees neither with the parameters at construction nor with the caller's current ones; spec %s"
                    % (cname, probes[0], obs[0].tolist(), spec))
            return out
    _form_classes(out, spec, len(cands), alive)
    first = None
    for c in alive:
        cand = cands[c]
        fresh = build(cand)
        if cname == "FunctionDiagonalDiscont":
            n = {1: 1, 2: 64, 3: 64, 4: 20}[d]
            ref = np.array([jump_reference(fresh.eval, d, n)])
            scale = np.ones(1)
            tol = np.array([1e-12 if d <= 2 else 1.0 / n ** 2])   # midpoint rule on the Lipschitz-1 kink function: <= h^2
        else:
            # FunctionG*: a product of piecewise linear factors -> 5 (and 1) nodes per piece are exact
            ref, scale, spread, n = reference_integral(fresh.eval, a, b, breaks(cand, a, b),
                                                       n=5 if cname in ("FunctionG", "FunctionGShifted") else None,
                                                       absf=abs_eval(fresh))
            if np.any(spread > 1e-11 * scale + 1e-300):
                out.info = dict(max_unresolved_spread=float(np.max(spread / np.maximum(scale, 1e-300))))
                continue
            tol = rel_tol * scale + 1e-15
        if ana.shape != ref.shape and ana.size != 1:
            out.bad(sub + "/shape/" + cname, "analytic integral has %d components, eval has %d" % (ana.size, ref.size))
            return out
        dev = np.abs(ana - ref)
        ok = not (np.any(dev > tol) or not np.all(np.isfinite(ana)))
        if first is None or ok:
            first = (cand, ref, scale, n, dev, ok)
        if ok:
            break
    if first is None:
        out.cls("ref-unresolved", "ref-unresolved:" + label)
        return out
    cand, ref, scale, n, dev, ok = first
    if not ok:
        cause = label
        # cause-based refinements for deviations already understood (observed value equals a specific wrong formula)
        if cname == "FunctionMultilinear":
            wrong = sum(cand["coeffs"][k] * (b[k] ** 2 / 2 - a[k] ** 2 / 2) for k in range(d))
            if abs(ana[0] - wrong) <= 1e-12 * max(1.0, abs(wrong)):
                cause = "FunctionMultilinear-sum-without-volume-of-other-dimensions"
        if cname == "GenzOszillatory" and all(c == 0 for c in cand["coeffs"]) and ana[0] == 0.0:
            cause = "GenzOszillatory-all-coefficients-zero-returns-0"
        out.bad(sub + "/mismatch/" + cause, "%s over [%s,%s]: analytic %s, Gauss(%d) reference %s, int|f| %s; spec %s"
                % (cname, a, b, ana.tolist(), n, ref.tolist(), scale.tolist(), spec))
    if cname == "GenzOszillatory" and 0 < sum(1 for c in spec["coeffs"] if c == 0) < d:
        out.cls("oszillatory-some-zero-coefficients")
    widths = set(round(b[k] - a[k], 12) for k in range(d))
    out.nontrivial = (d >= 2 and len(widths) >= 2) or _has_inner_kink(cand, a, b)
    if _has_inner_kink(cand, a, b):
        out.cls("kink-inside-box")
    out.info = dict(max_dim=d)
    if not out.violations:      # deviation of the cases that hold: shows the margin between rounding and the tolerance
        key = "max_dev_diagonal_discont" if cname == "FunctionDiagonalDiscont" else "max_rel_dev"
        if np.all(scale >= 1e-3):
            out.info[key] = float(np.max(dev / scale))
    return out


def run_integral_generic(case, factory=None):
    return run_integral(case, factory, sub=SUB_G, rel_tol=5e-6)


# ----------------------------------------------------------------------------------------------------------------
# strategies
# ----------------------------------------------------------------------------------------------------------------
def _nice(lo, hi):
    """mostly dyadic positions of [lo,hi], sometimes an arbitrary float"""
    return st.one_of(st.integers(0, 16).map(lambda k: lo + (hi - lo) * k / 16.0),
                     st.integers(0, 16).map(lambda k: lo + (hi - lo) * k / 16.0),
                     st.floats(lo, hi, allow_nan=False, allow_infinity=False))


RMAX = {1: 6.0, 2: 5.0, 3: 3.0, 4: 1.0}      # bound on |coefficient|*width so that the Gauss reference resolves
TAUS_ALL = [-0.5, 0.0, 0.25, 0.5, 0.6875, 1.0, 1.5]
TAUS_OUT = [-0.5, 0.0, 1.0, 1.5]


def draw_leaf(draw, cls, d, a, b, for_integral=False, parts=1):
    """parameters of a leaf class, scaled to the box [a,b] (coefficient*width in [0.25, RMAX])"""
    h = [b[k] - a[k] for k in range(d)]
    rmax = RMAX[d]
    state = dict(inner_kinks=0)

    def mag():
        return draw(st.one_of(st.sampled_from([r for r in (0.25, 0.5, 1.0, 1.5, 2.0, 3.0, 4.0, 6.0) if r <= rmax]),
                              st.floats(0.25, rmax, allow_nan=False)))

    def coef(k, signed=True):
        c = mag() / h[k]
        return -c if signed and draw(st.booleans()) else c

    def kink(k):
        limit = max(1, {1: 9, 2: 9, 3: 3, 4: 2}[d] // parts) if for_integral else 99   # bounds the number of pieces
        tau = draw(st.sampled_from(TAUS_ALL if state["inner_kinks"] < limit else TAUS_OUT))
        if 0 < tau < 1:
            state["inner_kinks"] += 1
        return a[k] + h[k] * tau

    s = dict(cls=cls, d=d)
    if cls == "ConstantValue":
        s["value"] = draw(st.sampled_from([3.0, 0.0, -1.25, 1.0, 0.1]))
    elif cls in ("FunctionLinear", "FunctionMultilinear", "FunctionPolynomial"):
        s["coeffs"] = [draw(st.one_of(st.sampled_from([1.0, 2.0, -1.0, 10.0 * (k + 1), 0.5, 0.0]),
                                      st.floats(-4, 4, allow_nan=False))) for k in range(d)]
        if cls == "FunctionLinear" and draw(st.integers(0, 5)) == 0:
            s["coeffs"] = [int(k + 1) for k in range(d)]        # integer coefficients as in FunctionLinear([1,2])
        if cls == "FunctionPolynomial":
            s["degree"] = draw(st.integers(0, 4))
    elif cls == "GenzCornerPeak":
        s["coeffs"] = [coef(k, signed=False) for k in range(d)]
    elif cls == "GenzC0":
        s["coeffs"] = [coef(k) for k in range(d)]
        s["midpoint"] = [kink(k) for k in range(d)]
    elif cls == "GenzProductPeak":
        s["coeffs"] = [coef(k) for k in range(d)]
        s["midpoint"] = [a[k] + h[k] * draw(st.sampled_from(TAUS_ALL)) for k in range(d)]
    elif cls == "GenzOszillatory":
        zero = draw(st.sampled_from(["none", "none", "some", "some", "all"]))
        mask = draw(st.integers(1, 2 ** d - 2)) if (zero == "some" and d >= 2) else (2 ** d - 1 if zero == "all" else 0)
        s["coeffs"] = [0.0 if (mask >> k) & 1 else coef(k) for k in range(d)]
        s["offset"] = draw(_nice(-1.0, 1.0))
    elif cls in ("GenzDiscontinious", "GenzDiscontinious2"):
        s["coeffs"] = [coef(k) for k in range(d)]
        s["border"] = [kink(k) for k in range(d)]
    elif cls in ("GenzGaussian", "FunctionGeneralizedNormal"):
        s["coeffs"] = [mag() * (2.0 if d <= 2 else 1.0) / h[k] ** 2 for k in range(d)]
        s["midpoint"] = [a[k] + h[k] * draw(st.sampled_from(TAUS_ALL)) for k in range(d)]
        if cls == "FunctionGeneralizedNormal":
            s["exp"] = draw(st.sampled_from([1, 2, 3]))
            if s["exp"] == 2:      # exp(+(sum c (x-m)^2)^2) grows: keep the exponent small enough not to overflow
                s["coeffs"] = [c / (8.0 * d) for c in s["coeffs"]]
    if cls in ("GenzCornerPeak", "GenzProductPeak", "GenzC0", "GenzDiscontinious", "GenzGaussian", "GenzOszillatory") \
            and draw(st.integers(0, 5)) == 0:
        # integer-valued coefficients, passed as Python ints (GenzCornerPeak(coeffs=[1, 2])): a parameter choice like any other
        s["coeffs"] = [draw(st.sampled_from([1, 2, 1, 3])) for _ in range(d)]
    if cls == "FunctionCantileverBeamD":
        s["width"] = draw(st.sampled_from([20.0, 4.0, 1.5]))
        s["thickness"] = draw(st.sampled_from([2.0, 1.0, 0.5]))
    elif cls == "Polynomial1d":
        s["coeffs"] = draw(st.one_of(st.sampled_from([[1, 0, 0, 2], [3, 0, 1, 2]]),
                                     st.lists(st.floats(-3, 3, allow_nan=False), min_size=1, max_size=6)))
    elif cls == "LambdaFunction":
        s["fn"] = draw(st.sampled_from(sorted(LAMBDA_1D)))
    elif cls == "CustomFunction":
        s["fn"] = draw(st.sampled_from(sorted(SCALAR_FN) + ([] if for_integral else sorted(VECTOR_FN))))
    elif cls == "FunctionCustom":
        form = draw(st.sampled_from(["single", "single"] if for_integral else ["single", "list", "vector"]))
        if form == "list":
            s["fns"] = draw(st.lists(st.sampled_from(sorted(SCALAR_FN)), min_size=1, max_size=3))
        else:
            s["fn"] = draw(st.sampled_from(sorted(SCALAR_FN) if form == "single" else sorted(VECTOR_FN)))
    return s


def _dims_ok(cls, d):
    return LEAF[cls][1] is None or d in LEAF[cls][1]


def draw_history_spec(draw):
    """returns (spec, lo, hi): the class with parameters and the box from which evaluation points are taken"""
    cls = draw(st.sampled_from(sorted(LEAF) + COMPOSITE))
    d = draw(st.sampled_from(LEAF[cls][1])) if cls in LEAF and LEAF[cls][1] else draw(st.integers(1, 4))
    if cls in LEAF:
        lo, hi = DOMAIN_BOX[LEAF[cls][0]]
        return draw_leaf(draw, cls, d, [lo] * d, [hi] * d), [lo] * d, [hi] * d
    scalar_only = cls in ("FunctionShift", "FunctionUQNormal", "FunctionUQNormal2", "FunctionUQWeighted", "FunctionCompose")
    pool = INNER_SCALAR if scalar_only else INNER_ANY
    n_inner = {"FunctionUQWeighted": 2, "FunctionCompose": draw(st.integers(1, 3)),
               "FunctionConcatenate": draw(st.integers(1, 3))}.get(cls, 1)
    inner_cls = [draw(st.sampled_from(pool)) for _ in range(n_inner)]
    kind = max((LEAF[c][0] for c in inner_cls), key=lambda k: _ORDER[k])
    lo, hi = DOMAIN_BOX[kind]
    a, b = [lo] * d, [hi] * d
    inner = [draw_leaf(draw, c, d, a, b) for c in inner_cls]
    # wrappers inside wrappers (only such that evaluate their inner function at the same point) and shared inner objects
    inner[0]["tag"] = "h"
    # (FunctionCompose multiplies eval() of its parts by a float, so its parts must have a scalar/ndarray-valued eval:
    # FunctionPower.eval returns a list and is not generated as a direct part of a composition)
    deco = "none" if cls == "FunctionCompose" else draw(st.sampled_from(["none", "none", "power", "concat", "shared"]))
    if deco == "power":            # the wrapped object is itself a wrapper whose eval returns an ndarray / a list
        inner[0] = dict(cls="FunctionPower", d=d, inner=inner[0], exponent=draw(st.integers(1, 3)))
    elif deco == "concat" and not scalar_only:
        inner[0] = dict(cls="FunctionConcatenate", d=d, parts=[inner[0]])
    elif deco == "shared":         # the same inner object used twice: h and FunctionPower(h, k)
        shared = dict(cls="FunctionPower", d=d, inner=dict(cls="same", tag="h", d=d), exponent=draw(st.integers(2, 3)))
        if len(inner) >= 2:
            inner[-1] = shared
        elif not scalar_only:
            inner[0] = dict(cls="FunctionConcatenate", d=d, parts=[inner[0], shared])
    s = dict(cls=cls, d=d)
    if cls == "FunctionShift":
        t = [draw(st.sampled_from([0.0, 0.25, -0.5, 1.0, 0.1])) for _ in range(d)]
        s.update(inner=inner[0], t=t)
        a, b = [a[k] - t[k] for k in range(d)], [b[k] - t[k] for k in range(d)]
        if kind != "any":   # rounding of (x - t) + t must not leave the closed domain of the inner function
            a, b = [a[k] + 1e-9 for k in range(d)], [b[k] - 1e-9 for k in range(d)]
    elif cls in ("FunctionUQNormal", "FunctionUQNormal2"):
        mean = [draw(st.sampled_from([0.0, 0.5, -0.25, 1.0])) for _ in range(d)]
        std = [draw(st.sampled_from([1.0, 0.5, 2.0, 0.3])) for _ in range(d)]
        if cls == "FunctionUQNormal":
            a, b = [(a[k] - mean[k]) / std[k] for k in range(d)], [(b[k] - mean[k]) / std[k] for k in range(d)]
            if kind != "any":
                a, b = [a[k] + 1e-9 for k in range(d)], [b[k] - 1e-9 for k in range(d)]
        s.update(inner=inner[0], mean=mean, std=std, a=list(a), b=list(b))
    elif cls == "FunctionUQWeighted":
        s.update(inner=inner[0], weight=inner[1])
    elif cls == "FunctionCompose":
        s["parts"] = [[sp, draw(st.sampled_from([1.0, -1.0, 0.5, 2.5, 0.0]))] for sp in inner]
    elif cls == "FunctionPower":
        s.update(inner=inner[0], exponent=draw(st.integers(1, 3)))
    elif cls == "FunctionPolysPCE":
        polys = draw(st.lists(st.sampled_from(sorted(POLY_FN)), min_size=1, max_size=3))
        s.update(inner=inner[0], polys=polys, norms=[draw(st.sampled_from([1.0, 0.5, 3.0])) for _ in polys])
    elif cls == "FunctionInverseTransform":
        dists = []
        for k in range(d):
            if kind == "any" and draw(st.booleans()):
                dists.append(["norm", draw(st.sampled_from([0.0, 0.5])), draw(st.sampled_from([1.0, 0.25]))])
            else:
                dists.append(["uniform", a[k], b[k] - a[k]])
        s.update(inner=inner[0], dists=dists)
        lo, hi = DOMAIN_BOX["open01"]
        a, b = [lo] * d, [hi] * d
    elif cls == "FunctionConcatenate":
        s["parts"] = inner
    return s, a, b


def draw_forms(draw, spec):
    """In half of the cases the first function (pre-order) that takes containers of numbers gets them in drawn forms (list,
    tuple, float64 ndarray, non-contiguous ndarray view, int ndarray where integer-valued); in half of those the caller
    modifies its containers in place right after the construction (coefficient-like: scaled; location-like: shifted)."""
    def first(s):
        if s["cls"] in PARAMS:
            return s
        for ch in _children(s):
            r = first(ch)
            if r is not None:
                return r
        return None
    node = first(spec)
    if node is None or not draw(st.booleans()):
        return spec
    node["forms"] = {}
    for name in PARAMS[node["cls"]]:
        integral = all(float(v).is_integer() for v in node[name])
        node["forms"][name] = draw(st.sampled_from(["list", "tuple", "farray", "farray", "view"] + (["iarray", "iarray"] if integral else [])))
    if node["cls"] in ("FunctionUQNormal", "FunctionUQNormal2") or not draw(st.booleans()):
        return spec        # (the points at which FunctionUQNormal evaluates its inner function depend on mean/std: forms only)
    names = [n for n in PARAMS[node["cls"]] if node["forms"][n] != "tuple"]
    if not names:
        return spec
    chosen = [n for n in names if draw(st.booleans())] or [names[0]]
    node["mutate"] = {}
    for name in chosen:
        ints = node["forms"][name] == "iarray"
        if name in ("coeffs", "norms", "std"):
            node["mutate"][name] = ["scale", 2.0 if ints else draw(st.sampled_from([2.0, 0.5]))]
        else:
            node["mutate"][name] = ["add", 1.0 if ints else 0.125]
    return spec


def history_strategy(tier):
    maxops = 18 if tier == "quick" else 25

    @st.composite
    def s(draw):
        spec, lo, hi = draw_history_spec(draw)
        spec = draw_forms(draw, spec)
        d = spec["d"]
        special = [[v for v in ks if lo[k] <= v <= hi[k]] for k, ks in enumerate(kinks(spec, centres=True))]
        npts = draw(st.integers(1, 8))
        points = []
        for _ in range(npts):
            p = []
            if spec["cls"] == "FunctionDiagonalDiscont" and d >= 2 and draw(st.booleans()):
                # a point on the discontinuity surface sum(x) = 1, built from decimal fractions k/10
                remaining = 10
                for i in range(d - 1):
                    k10 = draw(st.integers(1, remaining - (d - 1 - i)))
                    remaining -= k10
                    p.append(k10 / 10.0)
                p.append(remaining / 10.0)
                points.append(p)
                continue
            for k in range(d):
                choices = [_nice(lo[k], hi[k])]
                if special[k]:
                    choices.append(st.sampled_from(special[k]))
                p.append(float(draw(st.one_of(*choices))) + 0.0)
            points.append(p)
        nops = draw(st.integers(1, maxops))
        ops = []
        form = st.sampled_from(["t", "t", "t", "t", "l", "a"])
        idx = st.integers(0, npts - 1)
        # which object of the graph (pre-order index modulo the number of objects; 0 = the outermost one)
        obj = st.sampled_from([0, 0, 0, 1, 1, 2, 3]) if spec["cls"] in COMPOSITE else st.just(0)
        for _ in range(nops):
            k = draw(st.sampled_from(["single", "single", "single", "batch", "batch", "batch", "batch", "vec2", "vec3",
                                      "reset", "reset", "deact", "single"]))
            if k == "single":
                ops.append([k, draw(idx), draw(form), draw(obj), draw(st.sampled_from([0, 0, 1]))])
            elif k == "batch":
                ops.append([k, draw(st.lists(idx, min_size=0, max_size=8)), draw(form), draw(obj)])
            elif k == "vec2":
                ops.append([k, draw(st.lists(idx, min_size=1, max_size=8)), draw(obj)])
            elif k == "vec3":
                rows, cols = draw(st.integers(1, 3)), draw(st.integers(1, 3))
                ops.append([k, [[draw(idx) for _ in range(cols)] for _ in range(rows)], draw(obj)])
            else:
                ops.append([k, draw(obj)])
        return dict(spec=spec, points=points, ops=ops)
    return s()


def _draw_box(draw, d, kind):
    a, b = [], []
    for k in range(d):
        h = draw(st.sampled_from([0.25, 0.5, 1.0, 1.0, 1.5, 2.0, 3.0]))
        if kind == "pos":
            lo = draw(st.sampled_from([0.0, 0.0, 0.25, 0.5, 1.0, 2.0]))
        else:
            lo = draw(st.one_of(st.sampled_from([0.0, -1.0, -0.5, 0.25, 1.0, 2.0, -3.0]), st.floats(-2, 2, allow_nan=False).map(lambda v: round(v * 64) / 64.0)))
        # box corners, widths, kink positions and shifts are dyadic: (a - t) + t and a + tau*h are exact, so a border drawn
        # "on the box boundary" is exactly there (no sub-ulp slivers between the reference and the formula)
        a.append(float(lo) + 0.0)
        b.append(float(lo) + h)
    return a, b


def _expvar_box(draw, d):
    """x^(1/d): d=1 any box; d=2 boxes touching 0 (graded reference) or start>=0.3*width; d=3: >=0.5*width; d=4: >=width"""
    a, b = [], []
    ratio = {1: [0.0, 0.25, 1.0], 2: [0.0, 0.0, 0.3125, 1.0, 2.0], 3: [0.5, 1.0, 2.0], 4: [1.0, 2.0]}[d]
    for k in range(d):
        h = draw(st.sampled_from([0.25, 0.5, 1.0, 1.0, 2.0]))
        lo = h * draw(st.sampled_from(ratio))
        a.append(lo)
        b.append(lo + h)
    return a, b


def integral_strategy(tier):
    @st.composite
    def s(draw):
        names = ANALYTIC_LEAF + UNIT_BOX_ONLY + ["FunctionShift", "FunctionShift", "FunctionCompose", "FunctionCompose",
                                                 "Polynomial1d", "LambdaFunction", "FunctionExpVar"]
        cls = draw(st.sampled_from(names))
        d = 1 if cls in ("Polynomial1d", "LambdaFunction") else draw(st.integers(1, 4))
        forms = st.sampled_from(["tuple", "list", "farray", "farray", "iarray"])
        if cls in UNIT_BOX_ONLY:
            return dict(spec=dict(cls=cls, d=d), a=[0.0] * d, b=[1.0] * d, a_form=draw(forms), b_form=draw(forms))
        wrap = cls == "FunctionShift"
        compose = cls == "FunctionCompose" or (wrap and draw(st.booleans()))     # FunctionShift around a composition
        if compose:
            n_inner = draw(st.integers(2, 3)) if d <= 2 else 2
            inner_cls = [draw(st.sampled_from(ANALYTIC_INNER)) for _ in range(n_inner)]
            if draw(st.booleans()):       # a discontinuous / kinked function listed before the others (drawn order is kept)
                inner_cls[0] = draw(st.sampled_from(["GenzDiscontinious", "GenzDiscontinious", "GenzC0"]))
        elif wrap:
            inner_cls = [draw(st.sampled_from(ANALYTIC_INNER))]
        else:
            inner_cls = [cls]
        kind = max((LEAF[c][0] for c in inner_cls), key=lambda k: _ORDER[k])
        if "FunctionExpVar" in inner_cls:
            a, b = _expvar_box(draw, d)
        else:
            a, b = _draw_box(draw, d, kind)
        inner = [draw_leaf(draw, c, d, a, b, for_integral=True, parts=len(inner_cls)) for c in inner_cls]
        spec = inner[0]
        if compose:
            spec = dict(cls="FunctionCompose", d=d, parts=[[sp, draw(st.sampled_from([1.0, -1.0, 0.5, 2.5]))] for sp in inner])
        if wrap:
            t = [draw(st.sampled_from([0.0, 0.25, -0.5, 1.0])) for _ in range(d)]
            spec = dict(cls=cls, d=d, inner=spec, t=t, shift_form=draw(st.sampled_from(["list", "array"])))
            a, b = [a[k] - t[k] for k in range(d)], [b[k] - t[k] for k in range(d)]
        return dict(spec=draw_forms(draw, spec), a=a, b=b, a_form=draw(forms), b_form=draw(forms))
    return s()


def generic_strategy(tier):
    @st.composite
    def s(draw):
        cls = draw(st.sampled_from(["FunctionUQ2", "FunctionUQ", "FunctionUQShifted", "CustomFunction", "FunctionCustom"]))
        d = {"FunctionUQ2": 2, "FunctionUQ": 3, "FunctionUQShifted": 3}.get(cls) or draw(st.integers(2, 3))
        a, b = [], []
        for k in range(d):
            h = draw(st.sampled_from([0.5, 1.0, 1.5, 2.0]))
            lo = draw(st.sampled_from([-1.0, -0.5, 0.0, 0.25, 1.0, -2.0]))
            a.append(lo)
            b.append(lo + h)
        spec = draw_leaf(draw, cls, d, a, b, for_integral=True)
        if spec.get("fn") == "absum":          # |sum(x)-0.5| has a diagonal kink which no axis-parallel split resolves
            spec["fn"] = "sinsum"
        return dict(spec=spec, a=a, b=b)
    return s()


# ----------------------------------------------------------------------------------------------------------------
# deterministic regression cases (defects F-C12a/b/c were repaired by fix: commits — a regression must show up again)
# ----------------------------------------------------------------------------------------------------------------
def history_fixed():
    lin = dict(cls="FunctionLinear", d=2, coeffs=[1, 2])
    pts = [[0.5, 0.5], [0.25, 1.0], [0.0, 2.0]]
    return [
        # F-C12a: empty batch as the very first call, and after other evaluations
        dict(spec=lin, points=pts, ops=[["batch", [], "t"]]),
        dict(spec=lin, points=pts, ops=[["batch", [0, 1], "t"], ["batch", [], "t"], ["batch", [], "a"], ["single", 0, "t"]]),
        dict(spec=dict(cls="FunctionCustom", d=2, fn="vec3"), points=pts, ops=[["batch", [], "t"], ["batch", [], "l"]]),
        # F-C12b: single point with caching switched off
        dict(spec=lin, points=pts, ops=[["deact"], ["single", 0, "t"]]),
        dict(spec=dict(cls="GenzC0", d=2, coeffs=[1.0, 2.0], midpoint=[0.5, 0.5]), points=pts,
             ops=[["single", 0, "t"], ["deact"], ["single", 0, "t"], ["single", 1, "t"], ["batch", [1, 2], "t"], ["reset"],
                  ["single", 2, "t"]]),
        # wrappers and the objects they wrap take part in one history (ops carry the object index; 0 = outermost):
        # inner function batch-evaluated, then used through FunctionPower; the same with caching off; across a reset
        dict(spec=dict(cls="FunctionPower", d=2, exponent=2, inner=lin), points=pts,
             ops=[["batch", [0, 1], "t", 1], ["single", 0, "t", 0, 0], ["single", 0, "t", 1, 1], ["batch", [0, 1, 2], "t", 0],
                  ["reset", 0], ["single", 0, "t", 0, 1], ["single", 1, "t", 0, 0]]),
        dict(spec=dict(cls="FunctionPower", d=2, exponent=3, inner=lin), points=pts,
             ops=[["batch", [0, 1, 2], "t", 1], ["deact", 0], ["single", 0, "t", 0, 0], ["single", 0, "t", 0, 0], ["single", 1, "a", 0, 1],
                  ["single", 0, "t", 0, 0]]),
        # one inner object (whose eval returns an ndarray) shared by two wrappers: FunctionConcatenate([h, FunctionPower(h, 2)])
        dict(spec=dict(cls="FunctionConcatenate", d=2, parts=[
            dict(cls="FunctionConcatenate", d=2, tag="h", parts=[lin, dict(cls="GenzC0", d=2, coeffs=[1.0, 2.0], midpoint=[0.5, 0.5])]),
            dict(cls="FunctionPower", d=2, exponent=2, inner=dict(cls="same", tag="h", d=2))]), points=pts,
             ops=[["single", 0, "t", 0, 1], ["single", 0, "t", 0, 0], ["reset", 0], ["single", 0, "t", 0, 0], ["batch", [0, 1], "t", 4],
                  ["single", 1, "t", 0, 0], ["vec2", [0, 1, 2], 0]]),
        # the caller's coefficient array scaled in place after the construction; integer-typed coefficients
        dict(spec=dict(cls="GenzCornerPeak", d=2, coeffs=[1.0, 0.5], forms=dict(coeffs="farray"), mutate=dict(coeffs=["scale", 2.0])),
             points=pts, ops=[["single", 0, "t", 0, 0], ["batch", [0, 1, 2], "t", 0], ["vec2", [0, 1], 0], ["reset", 0], ["single", 1, "t", 0, 0]]),
        dict(spec=dict(cls="GenzC0", d=2, coeffs=[1.0, 2.0], midpoint=[0.5, 0.5], forms=dict(coeffs="view", midpoint="list"),
                       mutate=dict(coeffs=["scale", 0.5], midpoint=["add", 0.125])),
             points=pts, ops=[["single", 0, "t", 0, 0], ["batch", [0, 1, 2], "t", 0], ["vec3", [[0, 1]], 0]]),
        dict(spec=dict(cls="GenzProductPeak", d=2, coeffs=[1, 2], midpoint=[0.5, 0.5]), points=pts, ops=[["single", 0, "t", 0, 0]]),
        dict(spec=dict(cls="GenzCornerPeak", d=2, coeffs=[1, 2], forms=dict(coeffs="iarray")), points=pts,
             ops=[["single", 0, "t", 0, 0], ["batch", [0, 1, 2], "t", 0]]),
        # a plain non-trivial history
        dict(spec=lin, points=pts, ops=[["single", 0, "t"], ["batch", [0, 1, 1], "t"], ["reset"], ["batch", [2, 0], "t"],
                                        ["single", 2, "t"], ["vec2", [0, 1, 2]], ["vec3", [[0, 1], [2, 2]]]]),
    ]


def integral_fixed():
    cases = [
        # F-C12c: ConstantValue integral returned None
        dict(spec=dict(cls="ConstantValue", d=2, value=3), a=[0.0, 0.0], b=[1.0, 2.0]),
        dict(spec=dict(cls="ConstantValue", d=3, value=3.0), a=[-1.0, 0.0, 0.5], b=[1.0, 2.0, 0.75]),
    ]
    # a discontinuous function listed before another one in a composition, border inside the box: every box container form,
    # and a FunctionShift (list- and ndarray-valued coordinate map) around the composition
    disc = dict(cls="GenzDiscontinious", d=2, coeffs=[1.0, -0.5], border=[0.5, 2.0])
    comp = dict(cls="FunctionCompose", d=2, parts=[[disc, 1.0], [dict(cls="FunctionLinear", d=2, coeffs=[1.0, 2.0]), 0.5],
                                                   [dict(cls="GenzC0", d=2, coeffs=[1.0, 2.0], midpoint=[0.25, 0.5]), -1.0]])
    for af, bf in (("tuple", "tuple"), ("list", "farray"), ("farray", "farray"), ("iarray", "iarray"), ("farray", "tuple")):
        cases.append(dict(spec=comp, a=[0.0, 0.0], b=[1.0, 1.0], a_form=af, b_form=bf))
        for form in ("list", "array"):
            cases.append(dict(spec=dict(cls="FunctionShift", d=2, inner=comp, t=[0.25, -0.5], shift_form=form),
                              a=[-0.25, 0.5], b=[0.75, 1.5], a_form=af, b_form=bf))
    # constructor arguments as the caller's own containers, modified in place after the construction (a family of functions
    # built from one scratch array): the object must stay ONE function (that of the old or that of the new parameters)
    for form in ("list", "farray", "view", "tuple"):
        for cls, extra in (("GenzCornerPeak", {}), ("FunctionLinear", {}), ("GenzOszillatory", dict(offset=0.25)),
                           ("GenzDiscontinious", dict(border=[0.5, 2.0])), ("GenzProductPeak", dict(midpoint=[0.25, 0.5]))):
            cases.append(dict(spec=dict(dict(cls=cls, d=2, coeffs=[1.0, 0.5], forms=dict(coeffs=form),
                                             mutate=dict(coeffs=["scale", 2.0])), **extra),
                              a=[0.0, 0.0], b=[1.0, 1.5], a_form="list", b_form="tuple"))
    cases.append(dict(spec=dict(cls="Polynomial1d", d=1, coeffs=[1, 0, 0, 2], forms=dict(coeffs="list"), mutate=dict(coeffs=["scale", 2.0])),
                      a=[0.0], b=[0.5]))
    # integer-typed coefficients and an integer-typed box
    cases.append(dict(spec=dict(cls="GenzCornerPeak", d=2, coeffs=[1, 2]), a=[0.0, 0.0], b=[1.0, 1.0], a_form="iarray", b_form="iarray"))
    cases.append(dict(spec=dict(cls="GenzProductPeak", d=2, coeffs=[1, 2], midpoint=[0.5, 0.5]), a=[0.0, 0.0], b=[1.0, 1.0]))
    for d in (1, 2, 3, 4):
        for cls in UNIT_BOX_ONLY:
            cases.append(dict(spec=dict(cls=cls, d=d), a=[0.0] * d, b=[1.0] * d))
    return cases


# ----------------------------------------------------------------------------------------------------------------
# oracle self test
# ----------------------------------------------------------------------------------------------------------------
def selftest():
    # reference quadrature on closed forms
    v, s = gauss_reference(lambda x: x[0] * x[1], [0, 0], [1, 2], [[], []], 5)
    assert abs(v[0] - 1.0) < 1e-14 and abs(s[0] - 1.0) < 1e-14, v
    v, s = gauss_reference(lambda x: abs(x[0] - 0.3), [0], [1], [[0.3]], 4)
    assert abs(v[0] - 0.29) < 1e-14, v
    v, s = gauss_reference(lambda x: [1.0 if x[0] < 0.25 else 0.0, math.cos(x[1])], [0, 0], [1, 1], [[0.25], []], 12)
    assert abs(v[0] - 0.25) < 1e-14 and abs(v[1] - math.sin(1.0)) < 1e-13, v
    assert abs(jump_reference(lambda x: 1.0 if sum(x) < 1 else 0.0, 2, 16) - 0.5) < 1e-12
    assert abs(jump_reference(lambda x: 1.0 if sum(x) < 1 else 0.0, 3, 32) - 1.0 / 6) < 1.0 / 32 ** 2
    # the fixed cases hold on a healthy object ...
    case = history_fixed()[-1]
    # (whether the library passes is the business of the fixed cases, not of the self test: only conditional statements here)
    healthy = run_history(case)
    assert healthy.violations or healthy.nontrivial

    # ... and the oracle rejects corrupted ones: a stale cache entry, a wrong vectorised override, a wrong antiderivative
    def stale(spec):
        g = build_graph(spec)
        g[0]["inst"].f_dict[(0.5, 0.5)] = 123.0
        return g
    o = run_history(case, factory=stale)
    assert o.violations, "stale cache entry not rejected"

    def badvec(spec):
        g = build_graph(spec)
        f = g[0]["inst"]
        f.eval_vectorized = lambda c: np.prod(c * f.coeffs, axis=-1) + 1e-9
        return g
    o = run_history(case, factory=badvec)
    assert o.violations and (healthy.violations or any("/value/" in sig for sig, _ in o.violations)), \
        "wrong vectorised implementation not rejected"

    # a wrapper that powers the ndarray entry of its inner function's cache in place must be rejected at the inner object
    pcase = [c for c in history_fixed() if c["spec"]["cls"] == "FunctionPower"][0]
    healthy = run_history(pcase)

    def corrupting(spec):
        g = build_graph(spec)
        w, h = g[0]["inst"], g[1]["inst"]
        orig = w.eval

        def eval_(coordinates):
            v = h.f_dict.get(tuple(coordinates))
            r = orig(coordinates)
            if isinstance(v, np.ndarray):
                v **= 2
            return r
        w.eval = eval_
        return g
    o = run_history(pcase, factory=corrupting)
    assert o.violations, "corrupted inner cache not rejected"
    assert healthy.violations or any(sig in (SUB_H + "/value/recheck-cached", SUB_H + "/value-record/differs-from-fresh-eval")
                                    for sig, _ in o.violations), o.violations

    good = dict(spec=dict(cls="LambdaFunction", d=1, fn="cos"), a=[0.25], b=[1.5])

    def badanti(spec):
        import sparseSpACE.Function as F
        return F.LambdaFunction(LAMBDA_1D["cos"][0], lambda s: math.sin(s[0]) * (1 + 1e-7))
    assert run_integral(good, factory=badanti).violations, "wrong antiderivative not rejected"

    def clipping(spec):      # an integral that clips the caller's end array in place
        f = build(spec)
        orig = f.getAnalyticSolutionIntegral

        def mutating(start, end):
            r = orig(start, end)
            end[0] = 0.5 * (start[0] + end[0])
            return r
        f.getAnalyticSolutionIntegral = mutating
        return f
    o = run_integral(dict(good, b_form="farray"), factory=clipping)
    assert any(sig == SUB_I + "/arguments-mutated/LambdaFunction" for sig, _ in o.violations), o.violations


SUBS = [
    Sub(SUB_H, history_strategy, run_history, dict(quick=4000, thorough=60000),
        budget_s=dict(quick=40, thorough=500), fixed_cases=history_fixed),
    Sub(SUB_I, integral_strategy, run_integral, dict(quick=800, thorough=12000),
        budget_s=dict(quick=45, thorough=500), fixed_cases=integral_fixed),
    Sub(SUB_G, generic_strategy, run_integral_generic, dict(quick=96, thorough=1500),
        budget_s=dict(quick=30, thorough=300)),
]
