"""C01 — the adaptive combination scheme is always a valid inclusion-exclusion scheme."""
import itertools

from hypothesis import strategies as st

from vlib.core import Outcome, Sub

PROPERTY = "C01"
RULE = ("history: init_adaptive_combi_scheme(d, lmin, lmax) followed by 0..40 update_adaptive_combi requests drawn "
        "from {an active index, an old index, an arbitrary vector near the set, the previous request again, re-initialisation of the same object with the same or other levels}, in a third of the cases interleaved with requests on a second live scheme object of other dimension / levels; all "
        "invariants are evaluated after every request. Non-trivial = at least one request added forward neighbours in "
        "some but not all dimensions, or was rejected (not active), and d>=2. closed-form sub: (d,lmin,lmax) with d>=2 and "
        "lmax>lmin is non-trivial. Distinct = distinct case dict.")
ASSUMPTIONS = [
    "level vectors passed to update_adaptive_combi are integer tuples/lists of length d (what every caller passes)",
    "coefficients are compared exactly (integers)",
]


def _model_update(old, active, lmin, d, vec):
    vec = tuple(vec)
    if vec not in active:
        return None
    active.discard(vec)
    old.add(vec)
    added = []
    for k in range(d):
        n = list(vec)
        n[k] += 1
        ok = True
        for j in range(d):
            b = list(n)
            b[j] -= 1
            if b[j] < lmin:
                continue
            if tuple(b) not in old:
                ok = False
                break
        if ok:
            active.add(tuple(n))
            added.append(k)
    return added


def check_invariants(out, sub, cs, d, lmin, tag=""):
    """All clauses of the statement, evaluated on the public state of the scheme."""
    idx = set(cs.get_index_set())
    active = set(cs.active_index_set)
    old = set(cs.old_index_set)
    if idx != active | old:
        out.bad(sub + "/index-set-not-union", tag)
    if active & old:
        out.bad(sub + "/old-active-overlap", "%s %s" % (tag, sorted(active & old)[:3]))
    for l in idx:
        if len(l) != d or any(x < lmin for x in l):
            out.bad(sub + "/index-below-lmin", "%s %s" % (tag, l))
            return
    # downward closed above lmin
    for l in idx:
        for k in range(d):
            if l[k] > lmin:
                b = list(l)
                b[k] -= 1
                if tuple(b) not in idx:
                    out.bad(sub + "/not-downward-closed", "%s %s lacks backward neighbour in dim %d" % (tag, l, k))
                    return
    # no active index has a forward neighbour in the set
    for l in active:
        for k in range(d):
            f = list(l)
            f[k] += 1
            if tuple(f) in idx:
                out.bad(sub + "/active-has-forward-neighbour", "%s %s -> %s" % (tag, l, tuple(f)))
                return
    scheme = cs.getCombiScheme(do_print=False)
    coeff = {}
    for g in scheme:
        lv = tuple(int(x) for x in g.levelvector)
        if lv in coeff:
            out.bad(sub + "/duplicate-grid", "%s %s" % (tag, lv))
        coeff[lv] = g.coefficient
        if lv not in idx:
            out.bad(sub + "/grid-outside-index-set", "%s %s" % (tag, lv))
        if g.coefficient == 0:
            out.bad(sub + "/zero-coefficient-returned", "%s %s" % (tag, lv))
    if sum(coeff.values()) != 1:
        out.bad(sub + "/coefficients-do-not-sum-to-one", "%s sum=%s" % (tag, sum(coeff.values())))
    # inclusion-exclusion: for every l >= lmin in the bounding box (one beyond the maximum)
    hi = [max([l[k] for l in idx] + [lmin]) + 1 for k in range(d)]
    for l in itertools.product(*[range(lmin, hi[k] + 1) for k in range(d)]):
        s = 0
        for k, c in coeff.items():
            if all(k[j] >= l[j] for j in range(d)):
                s += c
        want = 1 if l in idx else 0
        if s != want:
            out.bad(sub + "/inclusion-exclusion", "%s l=%s: dominating coefficients sum to %s, expected %s" % (tag, l, s, want))
            return
    return coeff


def run_history(case):
    from sparseSpACE.combiScheme import CombiScheme
    out = Outcome()
    sub = "history"
    d, lmin, lmax = case["d"], case["lmin"], case["lmax"]
    cs = CombiScheme(d)
    cs.init_adaptive_combi_scheme(lmax, lmin)
    m_old = set(CombiScheme.init_old_index_set(lmax, lmin, d))  # replaced below by an independent construction
    # independent construction of the initial sets: |l - lmin + 1|_1 <= lmax-lmin+d  (simplex)
    n = lmax - lmin
    m_old, m_active = set(), set()
    for l in itertools.product(range(lmin, lmax + 1), repeat=d):
        s = sum(x - lmin for x in l)
        if s < n:
            m_old.add(l)
        elif s == n:
            m_active.add(l)
    if set(cs.old_index_set) != m_old or set(cs.active_index_set) != m_active:
        out.bad(sub + "/initial-sets", "old/active differ from the simplex construction")
    check_invariants(out, sub, cs, d, lmin, "after init")
    # a second, independent scheme object that is alive and used in between (state must be per object)
    other = None
    if case.get("other"):
        d2, lmin2, lmax2 = case["other"][:3]
        cs2 = CombiScheme(d2)
        cs2.init_adaptive_combi_scheme(lmax2, lmin2)
        o_old = set(l for l in itertools.product(range(lmin2, lmax2 + 1), repeat=d2) if sum(x - lmin2 for x in l) < lmax2 - lmin2)
        o_act = set(l for l in itertools.product(range(lmin2, lmax2 + 1), repeat=d2) if sum(x - lmin2 for x in l) == lmax2 - lmin2)
        other = dict(cs=cs2, d=d2, lmin=lmin2, old=o_old, act=o_act)
        out.cls("second-scheme-object-alive")

        def bystander(tag, k):
            """one request on the other object, then both objects must still be what their own histories say"""
            lst = sorted(cs2.active_index_set)
            if lst and k % 3 != 0:
                v = lst[k % len(lst)]
                cs2.update_adaptive_combi(v)
                _model_update(other["old"], other["act"], lmin2, d2, v)
            elif k % 3 == 0 and k:
                cs2.init_adaptive_combi_scheme(lmax2, lmin2)
                other["old"] = set(l for l in itertools.product(range(lmin2, lmax2 + 1), repeat=d2) if sum(x - lmin2 for x in l) < lmax2 - lmin2)
                other["act"] = set(l for l in itertools.product(range(lmin2, lmax2 + 1), repeat=d2) if sum(x - lmin2 for x in l) == lmax2 - lmin2)
            t2 = tag + " and a request on another live scheme object (d=%d, lmin=%d, lmax=%d)" % (d2, lmin2, lmax2)
            if (set(cs.old_index_set), set(cs.active_index_set)) != (m_old, m_active):
                out.bad(sub + "/sets-changed-by-another-scheme-object", t2)
            if (set(cs2.old_index_set), set(cs2.active_index_set)) != (other["old"], other["act"]):
                out.bad(sub + "/other-object/model-mismatch", t2)
            check_invariants(out, sub + "/after-another-scheme-object-was-used", cs, d, lmin, t2)
            check_invariants(out, sub + "/other-object", cs2, d2, lmin2, t2)
        bystander("after init", 1)
    prev = None
    partial = rejected = False
    nsucc = 0
    for i, op in enumerate(case["ops"]):
        if other is not None and i % 2 == 1 and not out.violations:
            bystander("before op %d" % i, case["other"][3][i % len(case["other"][3])])
            if out.violations:
                break
        kind = op[0]
        if kind == "active":
            lst = sorted(cs.active_index_set)
            vec = lst[op[1] % len(lst)] if lst else tuple([lmin] * d)
        elif kind == "old":
            lst = sorted(cs.old_index_set)
            vec = lst[op[1] % len(lst)] if lst else tuple([lmin] * d)
        elif kind == "vec":
            vec = tuple(op[1][:d] + [lmin] * (d - len(op[1])))
        elif kind == "reinit":
            # the same object is initialised again (same or other levels), as a second perform_combi on one object does
            lmin, lmax = (case["lmin"], case["lmax"]) if op[1] == 0 else (max(0, case["lmin"] + op[1] - 2), max(0, case["lmin"] + op[1] - 2) + op[2])
            cs.init_adaptive_combi_scheme(lmax, lmin)
            n = lmax - lmin
            m_old, m_active = set(), set()
            for l in itertools.product(range(lmin, lmax + 1), repeat=d):
                sdiff = sum(x - lmin for x in l)
                if sdiff < n:
                    m_old.add(l)
                elif sdiff == n:
                    m_active.add(l)
            tag = "after re-initialisation %d (lmin=%d, lmax=%d) of the same object" % (i, lmin, lmax)
            if set(cs.old_index_set) != m_old or set(cs.active_index_set) != m_active:
                out.bad(sub + "/reinit/sets-differ-from-a-fresh-initialisation", tag)
                m_old, m_active = set(cs.old_index_set), set(cs.active_index_set)
            fresh = CombiScheme(d).getCombiScheme(lmin, lmax, do_print=False)
            a_ = sorted((tuple(int(x) for x in g.levelvector), g.coefficient) for g in fresh)
            b_ = sorted((tuple(int(x) for x in g.levelvector), g.coefficient) for g in cs.getCombiScheme(do_print=False))
            if a_ != b_:
                out.bad(sub + "/reinit/scheme-differs-from-closed-form", "%s closed=%s got=%s" % (tag, a_[:5], b_[:5]))
            check_invariants(out, sub, cs, d, lmin, tag)
            out.cls("reinitialised-object")
            prev = None
            if out.violations:
                break
            continue
        else:  # repeat
            vec = prev if prev is not None else tuple([lmin] * d)
        prev = vec
        before = (set(cs.old_index_set), set(cs.active_index_set))
        was_active = tuple(vec) in before[1]
        ret = cs.update_adaptive_combi(list(vec) if i % 2 else tuple(vec))
        want = _model_update(m_old, m_active, lmin, d, vec)
        after = (set(cs.old_index_set), set(cs.active_index_set))
        tag = "after op %d %s vec=%s" % (i, kind, vec)
        if not was_active:
            rejected = True
            if after != before:
                out.bad(sub + "/non-refinable-request-changed-sets", tag)
            if ret:
                out.bad(sub + "/non-refinable-request-returned-dims", "%s ret=%s" % (tag, ret))
        else:
            nsucc += 1
            entered = sorted(k for k in range(d)
                             if tuple(vec[j] + (1 if j == k else 0) for j in range(d)) in (after[0] | after[1]) - (before[0] | before[1]))
            if ret is None or sorted(ret) != entered:
                out.bad(sub + "/return-value", "%s returned %s, forward neighbours entered in dims %s" % (tag, ret, entered))
            if 0 < len(entered) < d:
                partial = True
            if tuple(vec) not in after[0] or tuple(vec) in after[1]:
                out.bad(sub + "/refined-index-not-moved-to-old", tag)
        if after != (m_old, m_active):
            out.bad(sub + "/model-mismatch", "%s: sets differ from the reference frontier model" % tag)
            m_old, m_active = set(after[0]), set(after[1])
        check_invariants(out, sub, cs, d, lmin, tag)
        if out.violations:
            break
        if case.get("mutate") and i % 2 == 0:
            # a caller re-weights the grids of the answer it received (the Opticom routines of the library do exactly this
            # with scheme[i].coefficient = ...); later answers must still be the coefficients of the index set
            for g in cs.getCombiScheme(do_print=False):
                g.coefficient = 0.25
            check_invariants(out, sub, cs, d, lmin, tag + " (after the caller re-weighted the previously returned grid objects)")
            out.cls("caller-modified-returned-grids")
            if out.violations:
                break
    out.nontrivial = d >= 2 and (partial or rejected) and nsucc >= 1
    if partial:
        out.cls("partial-refinement")
    if rejected:
        out.cls("rejected-request")
    out.cls("d=%d" % d, "lmin=%d" % lmin)
    out.info = dict(max_steps=len(case["ops"]), max_index_set=len(cs.get_index_set()), max_dim=d)
    return out


def run_closed_form(case):
    from sparseSpACE.combiScheme import CombiScheme
    out = Outcome()
    sub = "closed_form"
    d, lmin, lmax = case["d"], case["lmin"], case["lmax"]
    fresh = CombiScheme(d).getCombiScheme(lmin, lmax, do_print=False)
    ad = CombiScheme(d)
    ad.init_adaptive_combi_scheme(lmax, lmin)
    adaptive = ad.getCombiScheme(do_print=False)
    a = sorted((tuple(int(x) for x in g.levelvector), g.coefficient) for g in fresh)
    b = sorted((tuple(int(x) for x in g.levelvector), g.coefficient) for g in adaptive)
    if a != b:
        out.bad(sub + "/closed-form-differs-from-adaptive", "d=%d lmin=%d lmax=%d closed=%s adaptive=%s" % (d, lmin, lmax, a[:6], b[:6]))
    check_invariants(out, sub, ad, d, lmin, "fresh adaptive")
    # reference coefficients from the definition: c_k = sum_{z in {0,1}^d, k+z in I} (-1)^{|z|}
    idx = set(ad.get_index_set())
    ref = {}
    for k in idx:
        c = 0
        for z in itertools.product((0, 1), repeat=d):
            if tuple(k[j] + z[j] for j in range(d)) in idx:
                c += (-1) ** sum(z)
        if c:
            ref[k] = c
    if ref != dict(b):
        out.bad(sub + "/coefficients-differ-from-definition", "d=%d lmin=%d lmax=%d" % (d, lmin, lmax))
    out.nontrivial = d >= 2 and lmax > lmin
    out.cls("d=%d" % d)
    return out


def history_strategy(tier):
    maxd = 4 if tier == "quick" else 5
    maxops = 25 if tier == "quick" else 40

    @st.composite
    def s(draw):
        d = draw(st.integers(1, maxd))
        lmin = draw(st.integers(0, 3))
        lmax = lmin + draw(st.integers(0, 4 if d <= 3 else 2))
        nops = draw(st.integers(0, maxops if d <= 3 else maxops // 2))
        ops = []
        for _ in range(nops):
            k = draw(st.sampled_from(["active", "active", "active", "active", "active", "active", "old", "vec", "repeat", "reinit"]))
            if k in ("active", "old"):
                ops.append([k, draw(st.integers(0, 60))])
            elif k == "vec":
                ops.append([k, draw(st.lists(st.integers(max(0, lmin - 1), lmax + 3), min_size=d, max_size=d))])
            elif k == "reinit":
                ops.append([k, draw(st.sampled_from([0, 0, 0, 1, 2, 3])), draw(st.integers(0, 3))])
            else:
                ops.append([k])
        c = dict(d=d, lmin=lmin, lmax=lmax, ops=ops, mutate=draw(st.booleans()))
        if draw(st.integers(0, 2)) == 0:
            # another live scheme object (other dimension / levels) used in between
            d2 = draw(st.integers(1, 3))
            l2 = draw(st.integers(0, 2))
            c["other"] = [d2, l2, l2 + draw(st.integers(1, 2)), draw(st.lists(st.integers(0, 20), min_size=1, max_size=6))]
        return c
    return s()


def closed_strategy(tier):
    return st.builds(lambda d, lmin, k: dict(d=d, lmin=lmin, lmax=lmin + k),
                     st.integers(1, 5 if tier == "quick" else 6), st.integers(0, 4), st.integers(0, 5))


def selftest():
    from sparseSpACE.combiScheme import CombiScheme
    # classical 2D scheme lmin=1,lmax=3: (1,3),(2,2),(3,1) +1 ; (1,2),(2,1) -1
    o = run_closed_form(dict(d=2, lmin=1, lmax=3))
    assert not o.violations, o.violations
    cs = CombiScheme(2)
    cs.init_adaptive_combi_scheme(3, 1)
    got = sorted((tuple(g.levelvector), g.coefficient) for g in cs.getCombiScheme(do_print=False))
    assert got == [((1, 2), -1), ((1, 3), 1), ((2, 1), -1), ((2, 2), 1), ((3, 1), 1)], got
    # the invariant checker must reject a corrupted scheme
    cs.active_index_set.add((4, 4))
    o = Outcome()
    check_invariants(o, "t", cs, 2, 1)
    assert o.violations, "corrupted scheme not rejected"


SUBS = [
    Sub("history", history_strategy, run_history, dict(quick=3000, thorough=60000),
        budget_s=dict(quick=40, thorough=600)),
    Sub("closed_form", closed_strategy, run_closed_form, dict(quick=320, thorough=2000),
        budget_s=dict(quick=20, thorough=200)),
]
